"""C03 - minimisation always terminates.  Partial, level 'other': bounded
work per proposal, structural recursion, one-step no-op guards,
progress-guarded fixed-point loops.  Multi-step cycles are NOT decided."""
import ast

from ..astutil import (call_name, calls_in, walk_no_nested, params_of, kw,
                       is_const, single_defs, module_sentinels,
                       expand_locals)
from ..cfg import (cfg_of, loop_body_paths, expr_owner_node, root_name,
                   facts_at, reaching_defs, enumerate_paths, decompose)
from ..shape import parse_expr
from ..loader import Program, AnalysisError, unparse
from ..pathutil import (path_method_calls, facts_before, describe_path,
                        node_calls)
from ..report import Check
from . import c11

PROP = 'C03'

SCOPE = ('nodes', 'nodeio', 'smtlib', 'mutator_utils')


def scope_modules(prog):
    return [m for m in prog.pkg_modules()
            if m.name in SCOPE or m.name.startswith('mutators')]


def _fn(node):
    n = getattr(node, '_parent', None)
    while n is not None:
        if isinstance(n, ast.FunctionDef):
            return n
        n = getattr(n, '_parent', None)
    return None


# --------------------------------------------------------------------- R2
def _net_increment(path, var):
    """Sum of constant +=/-= on ``var`` along the path; None if the variable
    is assigned in an unrecognised way."""
    net = 0
    for n in path.nodes[:-1]:
        a = n.ast
        if n.kind == 'stmt' and isinstance(a, ast.AugAssign) and isinstance(
                a.target, ast.Name) and a.target.id == var:
            if isinstance(a.value, ast.Constant) and isinstance(
                    a.value.value, int):
                if isinstance(a.op, ast.Add):
                    net += a.value.value
                elif isinstance(a.op, ast.Sub):
                    net -= a.value.value
                else:
                    return None
            elif isinstance(a.op, ast.Add) and isinstance(
                    a.value, ast.BinOp) and isinstance(
                        a.value.op, ast.Add) and isinstance(
                            a.value.right, ast.Constant) and isinstance(
                                a.value.left, ast.Name):
                # cursor += <decoded length> + c  (lengths are >= 0)
                net += a.value.right.value
            else:
                return None
        elif n.kind == 'stmt' and isinstance(a, ast.Assign) and any(
                isinstance(t, ast.Name) and t.id == var for t in a.targets):
            return None
    return net


def _var_change(path, var):
    """How ``var`` changes along the path: ('const', net) | ('grow', ) |
    ('shrink', ) | ('descend', ) | ('same', ) | ('jump', text)."""
    net = 0
    kind = None
    for n in path.nodes[:-1]:
        a = n.ast
        if n.kind != 'stmt':
            continue
        if isinstance(a, ast.AugAssign) and unparse(a.target) == var:
            if isinstance(a.value, ast.Constant) and isinstance(
                    a.value.value, int) and isinstance(a.op, (ast.Add,
                                                              ast.Sub)):
                net += a.value.value if isinstance(a.op, ast.Add) else \
                    -a.value.value
                kind = kind or 'const'
            elif isinstance(a.op, ast.Add) and isinstance(
                    a.value, ast.BinOp) and isinstance(
                        a.value.op, ast.Add) and isinstance(
                            a.value.right, ast.Constant) and isinstance(
                                a.value.left, ast.Name):
                # cursor += <decoded length> + c   (lengths are >= 0)
                net += a.value.right.value
                kind = kind or 'const'
            elif isinstance(a.op, ast.Add) and isinstance(
                    a.value, ast.Name):
                # cursor += <decoded length>   (lengths are >= 0)
                kind = kind or 'const'
            elif isinstance(a.op, ast.Mult) and isinstance(
                    a.value, ast.Constant) and a.value.value >= 2:
                return ('grow', )
            elif isinstance(a.op, ast.FloorDiv) and isinstance(
                    a.value, ast.Constant) and a.value.value >= 2:
                return ('shrink', )
            else:
                return ('jump', unparse(a))
        elif isinstance(a, ast.Assign) and any(
                unparse(t) == var for t in a.targets):
            v = a.value
            if unparse(v) == var:
                continue
            if isinstance(v, ast.BinOp) and isinstance(
                    v.op, ast.FloorDiv) and unparse(v.left) == var and \
                    isinstance(v.right, ast.Constant) and v.right.value >= 2:
                return ('shrink', )
            if isinstance(v, ast.Subscript) and root_name(v) == var:
                return ('descend', )
            if isinstance(v, ast.BinOp) and isinstance(
                    v.op, ast.Add) and unparse(v.left) == var and isinstance(
                        v.right, ast.Constant) and isinstance(
                            v.right.value, int):
                net += v.right.value
                kind = kind or 'const'
                continue
            if _readback_same(path, n, a, var):
                continue
            lin = _linear_net(path, var)
            if lin is not None:
                return ('const', lin)
            return ('jump', unparse(a))
    if kind == 'const':
        return ('const', net)
    return ('same', )


def _readback_same(path, node, a, var):
    """``var = obj.attr`` where, earlier on the path, ``obj = C(.., var,
    ..)`` and C.__init__ stores that parameter in ``attr`` (possibly with a
    default for None): the variable gets its own value back."""
    v = a.value
    if not (isinstance(v, ast.Attribute) and isinstance(v.value, ast.Name)):
        return False
    obj, attr = v.value.id, v.attr
    ctor = None
    for n2 in path.nodes:
        if n2 is node:
            break
        a2 = n2.ast
        if n2.kind == 'stmt' and isinstance(a2, ast.Assign) and any(
                isinstance(t, ast.Name) and t.id == obj
                for t in a2.targets):
            ctor = a2.value if isinstance(a2.value, ast.Call) else None
        elif n2.kind == 'stmt' and isinstance(a2, (ast.Assign,
                                                   ast.AugAssign)):
            tg = a2.targets if isinstance(a2, ast.Assign) else [a2.target]
            if any(isinstance(t, ast.Name) and t.id == var for t in tg):
                ctor = None  # var changed since the construction
    if ctor is None or not isinstance(ctor.func, ast.Name):
        return False
    pos = [i for i, x in enumerate(ctor.args)
           if isinstance(x, ast.Name) and x.id == var]
    if len(pos) != 1:
        return False
    fn = _fn(a)
    mod = getattr(fn, '_module', None)
    if mod is None:
        return False
    init = mod.funcs.get(f'{ctor.func.id}.__init__')
    if init is None:
        return False
    ps = params_of(init)
    if pos[0] + 1 >= len(ps):
        return False
    pname = ps[pos[0] + 1]
    stores = [st for st in walk_no_nested(init)
              if isinstance(st, ast.Assign) and any(
                  unparse(t) == f'{ps[0]}.{attr}' for t in st.targets)]
    if not stores:
        return False
    for st in stores:
        val = st.value
        if isinstance(val, ast.Name) and val.id == pname:
            continue
        if isinstance(val, ast.IfExp):
            t = unparse(val.test).replace(' ', '')
            if t == f'{pname}isNone' and unparse(val.orelse) == pname:
                continue
            if t == f'{pname}isnotNone' and unparse(val.body) == pname:
                continue
        return False
    return True


def _linear_net(path, var):
    """Net constant change of ``var`` along the path when the variable
    and the locals computed from it are linear in its value at the start of
    the path (``end = i + 12; i = end``); opaque names (decoded lengths)
    may only add to it - the same assumption as for ``i += n + c``."""
    env = {var: {'@0': 1}}

    def lev(e):
        if isinstance(e, ast.Constant) and isinstance(
                e.value, int) and not isinstance(e.value, bool):
            return {1: e.value}
        if isinstance(e, ast.Name):
            return dict(env.get(e.id, {e.id: 1}))
        if isinstance(e, ast.BinOp) and isinstance(e.op, (ast.Add, ast.Sub)):
            a_, b_ = lev(e.left), lev(e.right)
            if a_ is None or b_ is None:
                return None
            sg = 1 if isinstance(e.op, ast.Add) else -1
            for k_, v_ in b_.items():
                a_[k_] = a_.get(k_, 0) + sg * v_
            return a_
        return None

    for n in path.nodes[:-1]:
        a = n.ast
        if n.kind != 'stmt':
            continue
        if isinstance(a, ast.AugAssign) and isinstance(a.target, ast.Name):
            if a.target.id in env or a.target.id == var:
                if not isinstance(a.op, (ast.Add, ast.Sub)):
                    if a.target.id == var:
                        return None
                    env.pop(a.target.id, None)
                    continue
                v = lev(ast.BinOp(left=ast.Name(id=a.target.id,
                                                ctx=ast.Load()),
                                  op=a.op, right=a.value))
                if v is None:
                    if a.target.id == var:
                        return None
                    env.pop(a.target.id, None)
                else:
                    env[a.target.id] = v
        elif isinstance(a, ast.Assign):
            for t in a.targets:
                if isinstance(t, ast.Name):
                    v = lev(a.value)
                    if v is None:
                        if t.id == var:
                            return None
                        env.pop(t.id, None)
                    else:
                        env[t.id] = v
                else:
                    for nm in ast.walk(t):
                        if isinstance(nm, ast.Name) and isinstance(
                                nm.ctx, ast.Store):
                            if nm.id == var:
                                return None
                            env.pop(nm.id, None)
    f_ = env[var]
    if f_.get('@0', 0) != 1:
        return None
    if any(v_ < 0 for k_, v_ in f_.items() if k_ not in ('@0', 1)):
        return None
    return f_.get(1, 0)


def _net_increment(path, var):
    c = _var_change(path, var)
    if c[0] == 'const':
        return c[1]
    if c[0] == 'same':
        return 0
    return None


def classify_loop(m, f, loop):
    """(variant, status, message); status: 'ok' | 'violation' | 'unknown'.

    'violation' only when some iteration path provably makes no progress
    for the variant the loop's own test suggests; a loop the rule cannot
    analyse is 'unknown' (ANALYSIS-ERROR, never a verdict)."""
    cfg = cfg_of(f)
    head = cfg.node_of[id(loop)]
    paths = [p for p in loop_body_paths(cfg, loop) if p.end is head]
    test = loop.test
    ttxt = unparse(test)
    # atoms of the continuation condition
    atoms = []
    if isinstance(test, ast.BoolOp) and isinstance(test.op, ast.And):
        atoms = list(test.values)
    elif not (isinstance(test, ast.Constant) and test.value is True):
        atoms = [test]
    exit_tests = []
    for st in ast.walk(loop):
        if isinstance(st, ast.If) and any(
                isinstance(b, (ast.Return, ast.Break)) for b in st.body):
            exit_tests.append(st.test)
    # ---- work list
    for a in atoms:
        if isinstance(a, ast.Name):
            return _worklist(cfg, loop, paths, a.id)
    # ---- numeric cursor / counter
    cmps = [a for a in atoms + exit_tests if isinstance(a, ast.Compare)
            and len(a.ops) == 1]
    unknown = None
    for c in cmps:
        names = [x.id for x in ast.walk(c) if isinstance(x, ast.Name)]
        for v in dict.fromkeys(names):
            changes = [_var_change(p, v) for p in paths]
            if not paths:
                continue
            if all(ch[0] == 'same' for ch in changes):
                continue  # not the loop's variant variable
            in_left = any(isinstance(x, ast.Name) and x.id == v
                          for x in ast.walk(c.left))
            if c in exit_tests and c not in atoms:
                # "if v >= bound: break" continues while v < bound (up);
                # "if v <= 0: break" continues while v > 0 (down)
                up = isinstance(c.ops[0], (ast.Gt, ast.GtE)) and in_left
                down = isinstance(c.ops[0], (ast.Lt, ast.LtE)) and \
                    unparse(c.left) == v
            else:
                up = isinstance(c.ops[0], (ast.Lt, ast.LtE)) and in_left
                down = isinstance(c.ops[0], (ast.Gt, ast.GtE)) and \
                    unparse(c.left) == v
            others = [x for x in names if x != v]
            moved = [o for o in others for p in paths
                     if _var_change(p, o)[0] != 'same']
            bad = []
            for p, ch in zip(paths, changes):
                if ch[0] == 'const':
                    if (up and ch[1] >= 1) or (down and ch[1] <= -1):
                        continue
                    bad.append((p, f'net change {ch[1]:+d}'))
                elif ch[0] == 'grow' and up:
                    continue
                elif ch[0] == 'shrink' and down:
                    continue
                elif ch[0] == 'same':
                    bad.append((p, 'no change'))
                elif ch[0] == 'jump':
                    unknown = (f'"{v}" is assigned by "{ch[1]}": progress '
                               'cannot be established')
                    bad = None
                    break
                else:
                    bad.append((p, ch[0]))
            if bad is None:
                continue
            if moved:
                unknown = f'the bound {moved[0]} of "{v}" moves in the loop'
                continue
            if not bad:
                return ('cursor', 'ok', f'{v} makes progress on every '
                        f'iteration path ({len(paths)} paths), bound fixed')
            p, why = bad[0]
            return ('cursor', 'violation',
                    f'on {describe_path(p)} the loop variable "{v}" of '
                    f'"while {ttxt}" makes no progress ({why}): the loop '
                    'does not terminate on inputs that take this path')
    # ---- descent: while P(n): n = n[k]
    names = [x.id for a in atoms for x in ast.walk(a)
             if isinstance(x, ast.Name)]
    for v in dict.fromkeys(names):
        changes = [_var_change(p, v) for p in paths]
        if paths and any(ch[0] == 'descend' for ch in changes):
            bad = [(p, ch) for p, ch in zip(paths, changes)
                   if ch[0] != 'descend']
            if not bad:
                return ('descent', 'ok', f'{v} replaced by a strict '
                        'sub-term on every iteration')
            if any(ch[0] == 'jump' for _, ch in bad):
                unknown = f'"{v}" reassigned in an unrecognised way'
                continue
            return ('descent', 'violation',
                    f'on {describe_path(bad[0][0])} "{v}" is not replaced '
                    'by a sub-term: the loop does not terminate')
        if paths and atoms and all(ch[0] == 'same' for ch in changes) and \
                any(isinstance(a, ast.Call) and any(
                    isinstance(x, ast.Name) and x.id == v
                    for x in ast.walk(a)) for a in atoms) and len(
                        dict.fromkeys(names)) == 1:
            return ('descent', 'violation',
                    f'the loop "while {ttxt}" never changes "{v}"')
    return ('unknown', 'unknown', unknown or
            f'loop "while {ttxt}" matches none of the recognised '
            'termination variants (work list, cursor, doubling/halving, '
            'descent)')


def _worklist(cfg, loop, paths, w):
    bad = []
    sents = module_sentinels(getattr(cfg.func, '_module', None)) if getattr(
        cfg.func, '_module', None) is not None else set()
    for p in paths:
        pops = [c for (i, n, c) in path_method_calls(p)
                if unparse(c.func.value) == w
                and c.func.attr in ('pop', 'popleft')]
        if len(pops) < 1:
            bad.append(f'{describe_path(p)}: no pop from {w}')
    popped = set()
    for st in ast.walk(loop):
        if isinstance(st, ast.Assign) and isinstance(
                st.value, ast.Call) and isinstance(
                    st.value.func, ast.Attribute) and \
                st.value.func.attr in ('pop', 'popleft') and unparse(
                    st.value.func.value) == w:
            for t in st.targets:
                for nm in ast.walk(t):
                    if isinstance(nm, ast.Name):
                        popped.add(nm.id)
    for p in paths:
        for (i, n, c) in path_method_calls(p):
            if unparse(c.func.value) != w or c.func.attr not in (
                    'append', 'extend', 'insert', 'appendleft'):
                continue
            for a in c.args:
                # locals bound on this path ("children = ex.data[1:]")
                from ..pathutil import path_subst
                a = path_subst(p, i, a, keep=tuple(popped) + (w, ))
                # locals computed from the popped element
                # ("child_depth = cur_depth + 1") count as derived
                from ..astutil import subst
                defs_ = single_defs(cfg.func)
                for _k in range(3):
                    loc_ = {x.id for x in ast.walk(a)
                            if isinstance(x, ast.Name)
                            and x.id in defs_ and x.id not in popped
                            and x.id != w
                            and not any(isinstance(y, ast.Call)
                                        for y in ast.walk(defs_[x.id]))}
                    if not loc_:
                        break
                    a = subst(a, {k_: defs_[k_] for k_ in loc_})
                names = {x.id for x in ast.walk(a)
                         if isinstance(x, ast.Name)}
                comp_vars = set()
                for x in ast.walk(a):
                    if isinstance(x, ast.comprehension):
                        for y in ast.walk(x.target):
                            if isinstance(y, ast.Name):
                                comp_vars.add(y.id)
                free = names - comp_vars - {'reversed', 'True', 'False',
                                            'None', 'zip', 'list', 'tuple',
                                            'iter', 'enumerate'}
                derived = all(v in popped for v in free)
                if not derived and isinstance(a, ast.Name) and \
                        a.id in sents and c.func.attr != 'extend':
                    # an identity marker (NAME = object() at module level):
                    # fine if the iteration that pops it pushes nothing
                    quiet = True
                    seen_marker_path = False
                    for p2 in paths:
                        if any((f'{v} is {a.id}', True) in set(p2.facts)
                               for v in popped):
                            seen_marker_path = True
                            if any(unparse(c2.func.value) == w
                                   and c2.func.attr in (
                                       'append', 'extend', 'insert',
                                       'appendleft')
                                   for (_i, _n, c2) in path_method_calls(
                                       p2)):
                                quiet = False
                    if quiet and seen_marker_path:
                        continue
                selfpush = (isinstance(a, ast.Tuple) and a.elts
                            and isinstance(a.elts[0], ast.Name)
                            and a.elts[0].id in popped) or (
                                isinstance(a, ast.Name) and a.id in popped)
                if not derived:
                    bad.append(f'push of "{unparse(a)}" is not derived from '
                               'the popped element')
                elif selfpush:
                    before = set(facts_before(p, i))
                    ok = any(pol is False and t in popped
                             for (t, pol) in before)
                    if not ok:
                        bad.append('the popped element is pushed again '
                                   f'("{unparse(a)}") without a '
                                   'visited-flag guard')
    return ('work-list', 'ok' if not bad else 'violation',
            '; '.join(bad[:3]))


def rule_r2(chk, prog):
    chk.rule('C03.R2', 'every while loop in nodes/nodeio/smtlib/mutators* '
             'has a recognised termination variant on every iteration path; '
             'no for loop ranges over an unbounded iterator')
    n = 0
    for m in scope_modules(prog):
        for q, f in m.funcs.items():
            if (m.name, q) == ('nodeio', 'parse_smtlib'):
                # scans written with slices / str.find are judged on the
                # equivalent character loops (equivalence itself is C08.R6;
                # if it fails the loops stay unknown here)
                from ..scanner_norm import normalised_scanner
                nf, verdicts, _ = normalised_scanner(m)
                # only the cursor matters for termination: it resumes at
                # e+1 / size exactly as the character loop does
                if all(v.ok for v in verdicts
                       if v.what.startswith(('cursor', 'lexeme slice'))):
                    f = nf
            for loop in walk_no_nested(f):
                if isinstance(loop, ast.While):
                    n += 1
                    variant, status, msg = classify_loop(m, f, loop)
                    if status == 'unknown':
                        raise AnalysisError(
                            f'C03.R2: {m.loc(loop)} in {m.name}.{q}: {msg}')
                    chk.check('C03.R2', f'{m.name}.{q}',
                              f'while {unparse(loop.test)} [{variant}]',
                              status == 'ok', msg or variant,
                              loc=m.loc(loop), nontrivial=True,
                              argument=msg or variant)
                elif isinstance(loop, (ast.For, ast.comprehension)):
                    it = loop.iter
                    for c in ast.walk(it):
                        if isinstance(c, ast.Call) and call_name(c) in (
                                'itertools.count', 'itertools.cycle',
                                'itertools.repeat', 'iter') and (
                                    call_name(c) != 'iter'
                                    or len(c.args) == 2):
                            chk.check('C03.R2', f'{m.name}.{q}', it, False,
                                      'loop over an unbounded iterator',
                                      loc=m.loc(it))
    chk.floor('C03.R2', 'while loops classified', n, 17)


# --------------------------------------------------------------------- R3
def _derivation(f, arg, param, depth=0):
    """'strict' | 'same' | None: how ``arg`` relates to parameter ``param``
    of ``f`` as a sub-structure."""
    if depth > 4:
        return None
    if isinstance(arg, ast.Name):
        if arg.id == param:
            return 'same'
        # loop / comprehension / lambda variable over something derived
        n = getattr(arg, '_parent', None)
        # find binding construct
        cur = arg
        while cur is not None and cur is not f:
            par = getattr(cur, '_parent', None)
            if isinstance(par, (ast.ListComp, ast.GeneratorExp, ast.SetComp,
                                ast.DictComp)):
                for g in par.generators:
                    if any(isinstance(x, ast.Name) and x.id == arg.id
                           for x in ast.walk(g.target)):
                        d = _derivation(f, g.iter, param, depth + 1)
                        return 'strict' if d else None
            if isinstance(par, ast.For) and any(
                    isinstance(x, ast.Name) and x.id == arg.id
                    for x in ast.walk(par.target)) and cur is not par.iter:
                d = _derivation(f, par.iter, param, depth + 1)
                return 'strict' if d else None
            if isinstance(par, ast.Lambda) and any(
                    a.arg == arg.id for a in par.args.args):
                # lambda passed to map/filter/any(map(...)) over an iterable
                call = getattr(par, '_parent', None)
                if isinstance(call, ast.Call) and call_name(call) in (
                        'map', 'filter') and len(call.args) >= 2:
                    d = _derivation(f, call.args[1], param, depth + 1)
                    return 'strict' if d else None
                return None
            cur = par
        sd = single_defs(f).get(arg.id)
        if sd is not None:
            return _derivation(f, sd, param, depth + 1)
        return None
    if isinstance(arg, ast.Subscript):
        d = _derivation(f, arg.value, param, depth + 1)
        return 'strict' if d else None
    if isinstance(arg, ast.Attribute) and arg.attr == 'data':
        d = _derivation(f, arg.value, param, depth + 1)
        return d
    if isinstance(arg, ast.Call) and call_name(arg) in (
            'reversed', 'enumerate', 'list', 'tuple') and arg.args:
        return _derivation(f, arg.args[0], param, depth + 1)
    if isinstance(arg, ast.Call) and call_name(arg) == 'Node' and arg.args:
        # Node(node[1:]) wraps a strict part (SimplifySymbolNames.__flatten)
        ds = [_derivation(f, a, param, depth + 1) for a in arg.args]
        return 'strict' if all(d == 'strict' for d in ds) else None
    if isinstance(arg, ast.Starred):
        return _derivation(f, arg.value, param, depth + 1)
    return None


def rule_r3(chk, prog):
    chk.rule('C03.R3', 'recursion is structural: along every cycle of the '
             'call graph the tree argument never grows and strictly shrinks '
             'at least once')
    funcs = {}
    for m in scope_modules(prog):
        for q, f in m.funcs.items():
            funcs[(m.name, q)] = (m, f)
    edges = {}  # (caller, callee) -> list of (kind, call, mod)

    def add(caller, callee, kind, call, m):
        edges.setdefault((caller, callee), []).append((kind, call, m))

    for (mn, q), (m, f) in funcs.items():
        ps = [p for p in params_of(f) if p not in ('self', 'cls')]
        if not ps:
            continue
        param = ps[0]
        cls = f._class.name if getattr(f, '_class', None) is not None else None
        for c in ast.walk(f):
            # direct call f(arg) / self.__m(arg) / mod.f(arg)
            targets = []
            if isinstance(c, ast.Call):
                fn = c.func
                if isinstance(fn, ast.Attribute) and isinstance(
                        fn.value, ast.Name) and fn.value.id == 'self' and cls:
                    tq = f'{cls}.{fn.attr}'
                    if (mn, tq) in funcs:
                        targets.append(((mn, tq), c.args[0] if c.args
                                        else None))
                elif isinstance(fn, (ast.Name, ast.Attribute)):
                    r = prog.resolve_expr(m, fn)
                    if r and r[0] == 'func' and (r[1].name, r[2]) in funcs:
                        targets.append(((r[1].name, r[2]),
                                        c.args[0] if c.args else None))
                    elif isinstance(fn, ast.Name) and fn.id in (
                            'str', 'repr') and cls == 'Node' and c.args:
                        tq = f'Node.__{fn.id}__'
                        targets.append(((mn, tq), c.args[0]))
                    # map(g, iterable): implicit calls g(element)
                    if isinstance(fn, ast.Name) and fn.id in ('map',
                                                              'filter') and \
                            len(c.args) >= 2 and isinstance(
                                c.args[0], (ast.Name, ast.Attribute)):
                        g = c.args[0]
                        tgt = None
                        if isinstance(g, ast.Name) and g.id in (
                                'str', 'repr') and cls == 'Node':
                            tgt = (mn, f'Node.__{g.id}__')
                        else:
                            r2 = prog.resolve_expr(m, g)
                            if r2 and r2[0] == 'func':
                                tgt = (r2[1].name, r2[2])
                        if tgt in funcs:
                            d = _derivation(f, c.args[1], param)
                            add((mn, q), tgt, 'strict' if d else None, c, m)
            for tgt, arg in targets:
                if arg is None:
                    add((mn, q), tgt, None, c, m)
                else:
                    add((mn, q), tgt, _derivation(f, arg, param), c, m)
    # SCCs (Tarjan) on the call graph
    graph = {}
    for (a, b) in edges:
        graph.setdefault(a, set()).add(b)
        graph.setdefault(b, set())
    index = {}
    low = {}
    stack = []
    on = set()
    sccs = []
    counter = [0]

    def strong(v):
        index[v] = low[v] = counter[0]
        counter[0] += 1
        stack.append(v)
        on.add(v)
        for w in graph[v]:
            if w not in index:
                strong(w)
                low[v] = min(low[v], low[w])
            elif w in on:
                low[v] = min(low[v], index[w])
        if low[v] == index[v]:
            comp = []
            while True:
                w = stack.pop()
                on.discard(w)
                comp.append(w)
                if w == v:
                    break
            sccs.append(comp)

    import sys
    sys.setrecursionlimit(10000)
    for v in list(graph):
        if v not in index:
            strong(v)
    nrec = 0
    for comp in sccs:
        cs = set(comp)
        rec_edges = [(a, b) for (a, b) in edges
                     if a in cs and b in cs and (len(cs) > 1 or a == b)]
        if not rec_edges:
            continue
        # every recursive edge must be non-increasing
        same_graph = {}
        for (a, b) in rec_edges:
            for (kind, call, m) in edges[(a, b)]:
                nrec += 1
                ok = kind in ('strict', 'same')
                chk.check('C03.R3', f'{a[0]}.{a[1]}', call, ok,
                          f'recursive call into {b[0]}.{b[1]} passes an '
                          'argument that is not the tree parameter or a '
                          'strict part of it: the recursion is not '
                          'structural', loc=m.loc(call), nontrivial=True,
                          argument=f'argument is {kind} w.r.t. the tree '
                          'parameter')
                if kind == 'same':
                    same_graph.setdefault(a, set()).add(b)
        # no cycle of "same" edges
        seen = {}

        def cyc(v, path):
            if v in path:
                return path[path.index(v):] + [v]
            if seen.get(v):
                return None
            seen[v] = True
            for w in same_graph.get(v, ()):
                r = cyc(w, path + [v])
                if r:
                    return r
            return None

        for v in list(same_graph):
            seen.clear()
            r = cyc(v, [])
            if r:
                names = ' -> '.join(f'{x[0]}.{x[1]}' for x in r)
                m0, f0 = funcs[r[0]]
                chk.check('C03.R3', f'{r[0][0]}.{r[0][1]}', names, False,
                          f'call cycle {names} passes the same node all the '
                          'way round: unbounded recursion', loc=m0.loc(f0),
                          nontrivial=True)
                break
    chk.floor('C03.R3', 'recursive call sites', nrec, 10)


# --------------------------------------------------------------------- R4
def _emissions(f):
    return [c for c in ast.walk(f)
            if isinstance(c, ast.Call) and call_name(c) == 'Simplification']


def _has(facts, pred):
    return any(pred(t, pol) for (t, pol) in facts)


def _filtered_by(f, node, name, pred, depth=0):
    """Every reaching definition of ``name`` at CFG node ``node`` is a value
    satisfying ``pred`` or derived (comprehension / filter / list) from a
    name for which this holds recursively."""
    cfg = cfg_of(f)
    RD = reaching_defs(cfg, params_of(f))
    defs = (RD.get(node) or {}).get(name)
    if not defs or depth > 5:
        return False
    for d in defs:
        if d == 'param' or not (d.kind == 'stmt' and isinstance(
                d.ast, ast.Assign)):
            return False
        v = d.ast.value
        if pred(v):
            continue
        srcs = set()
        if isinstance(v, (ast.ListComp, ast.GeneratorExp)):
            for g in v.generators:
                if isinstance(g.iter, ast.Name):
                    srcs.add(g.iter.id)
        elif isinstance(v, ast.Call) and call_name(v) in (
                'filter', 'list', 'sorted', 'tuple') and v.args and isinstance(
                    v.args[-1], ast.Name):
            srcs.add(v.args[-1].id)
        if not srcs:
            return False
        for s in srcs:
            if not _filtered_by(f, d, s, pred, depth + 1):
                return False
    return True


def rule_r4(chk, prog):
    chk.rule('C03.R4', 'one-step no-op guards: mutators whose replacement '
             'can have the shape of the node compare node and candidate (or '
             'exclude the image of their own replacement) before every '
             'emission')

    def emis(modname, cls, meth):
        m = prog.mod(modname)
        f = m.func(f'{cls}.{meth}')
        es = _emissions(f)
        if not es:
            raise AnalysisError(f'{modname}.{cls}.{meth}: no Simplification '
                                'emission found')
        return m, f, es

    def need(modname, cls, meth, label, pred, msg):
        m, f, es = emis(modname, cls, meth)
        for e in es:
            facts = facts_at(f, e)
            ok = _has(facts, pred)
            chk.check('C03.R4', f'{modname}.{cls}.{meth}',
                      f'{label} before {unparse(e)[:50]}', ok, msg,
                      loc=m.loc(e), nontrivial=True,
                      argument=f'must-fact "{label}" holds at the emission')

    # Constants: node in res -> nothing
    need('mutators_core', 'Constants', 'mutations', 'node not among the '
         'default constants',
         lambda t, p: (t.startswith('node in ') and not p) or (
             t in ('c == node', 'node == c') and not p),
         'a default constant is "replaced" by the default constants of its '
         'sort: the proposal list contains the node itself')
    # SortChildren: s != node
    need('mutators_core', 'SortChildren', 'mutations', 'sorted != node',
         lambda t, p: t in ('s == node', 'node == s') and not p,
         'children already in order are "sorted" again: no-op proposal')
    # ReplaceByVariable: strict order on leaves, never a defined function
    m = prog.mod('mutators_core')
    f = m.func('ReplaceByVariable.mutations')
    cfg = cfg_of(f)
    es = _emissions(f)
    # what is known about a candidate v when it is emitted: the filters its
    # list went through (comprehension conditions, filter(lambda), the guards
    # in front of an append) on every definition chain
    RD = reaching_defs(cfg, params_of(f))
    from ..astutil import subst as _subst
    V = ast.Name(id='V_', ctx=ast.Load())

    def canon(e, var):
        return unparse(_subst(e, {var: V}))

    def admission(node_, name, depth=0):
        """list of fact sets (alternatives) for elements of list ``name``"""
        if depth > 6:
            return [set()]
        defs = (RD.get(node_) or {}).get(name) or ()
        alts = []
        for d in defs:
            if d == 'param' or not (d.kind == 'stmt' and isinstance(
                    d.ast, ast.Assign)):
                alts.append(set())
                continue
            v = d.ast.value
            site = set(facts_at(f, d.ast))
            if isinstance(v, (ast.ListComp, ast.GeneratorExp)) and len(
                    v.generators) == 1 and isinstance(
                        v.generators[0].target, ast.Name) and unparse(
                            v.elt) == v.generators[0].target.id:
                g = v.generators[0]
                own = set()
                for c in g.ifs:
                    for (x, p_) in decompose(c, True):
                        own.add((canon(x, g.target.id), p_))
                inner = admission(d, g.iter.id, depth + 1) if isinstance(
                    g.iter, ast.Name) else [set()]
                alts += [own | site | a for a in inner]
            elif isinstance(v, ast.Call) and call_name(v) == 'filter' and \
                    len(v.args) == 2 and isinstance(v.args[0], ast.Lambda):
                lam = v.args[0]
                own = set()
                for (x, p_) in decompose(lam.body, True):
                    own.add((canon(x, lam.args.args[0].arg), p_))
                inner = admission(d, v.args[1].id, depth + 1) if isinstance(
                    v.args[1], ast.Name) else [set()]
                alts += [own | site | a for a in inner]
            elif isinstance(v, ast.Call) and call_name(v) in (
                    'list', 'sorted', 'tuple') and v.args and isinstance(
                        v.args[0], ast.Name):
                alts += admission(d, v.args[0].id, depth + 1)
            elif isinstance(v, ast.List) and not v.elts:
                # accumulation: every append of an element to this list
                found = False
                for c in calls_in(f):
                    if isinstance(c.func, ast.Attribute) and \
                            c.func.attr == 'append' and unparse(
                                c.func.value) == name and c.args and \
                            isinstance(c.args[0], ast.Name):
                        found = True
                        ev = c.args[0].id
                        own = set()
                        for (t, p_) in facts_at(f, c):
                            e_ = parse_expr(t)
                            if e_ is not None:
                                own.add((canon(e_, ev), p_))
                        # the loop the element comes from
                        lp = getattr(c, '_parent', None)
                        src = None
                        while lp is not None and lp is not f:
                            if isinstance(lp, ast.For) and isinstance(
                                    lp.target, ast.Name) and \
                                    lp.target.id == ev:
                                src = lp.iter
                                break
                            lp = getattr(lp, '_parent', None)
                        inner = admission(cfg.node_of[id(lp)], src.id,
                                          depth + 1) if isinstance(
                                              src, ast.Name) and lp is not \
                            None and id(lp) in cfg.node_of else [set()]
                        # one alternative per iteration path that reaches
                        # the append (the guards differ by path)
                        owns = []
                        if lp is not None and id(lp) in cfg.node_of:
                            an = expr_owner_node(cfg, c)
                            for pth in loop_body_paths(cfg, lp):
                                if an in pth.nodes:
                                    k_ = pth.nodes.index(an)
                                    fs = set()
                                    for (t, p_) in facts_before(pth, k_):
                                        e_ = parse_expr(t)
                                        if e_ is not None:
                                            fs.add((canon(e_, ev), p_))
                                    owns.append(fs | own)
                        for o_ in (owns or [own]):
                            alts += [o_ | a for a in inner]
                if not found:
                    alts.append(set())
            else:
                alts.append(site)
        return alts or [set()]

    nchain = 0
    for e in es:
        comp = getattr(e, '_parent', None)
        while comp is not None and not isinstance(comp, (ast.ListComp,
                                                         ast.GeneratorExp)):
            comp = getattr(comp, '_parent', None)
        src = comp.generators[0].iter if comp is not None else None
        n = expr_owner_node(cfg, e)
        loop_alts = None
        if comp is None:
            # emitted inside an explicit loop over the candidates: one
            # alternative per iteration path that reaches the emission
            lp = getattr(e, '_parent', None)
            while lp is not None and lp is not f and not (
                    isinstance(lp, ast.For) and isinstance(
                        lp.target, ast.Name)):
                lp = getattr(lp, '_parent', None)
            if isinstance(lp, ast.For) and id(lp) in cfg.node_of:
                ev = lp.target.id
                loop_alts = []
                for pth in loop_body_paths(cfg, lp):
                    if n in pth.nodes:
                        k_ = pth.nodes.index(n)
                        fs = set()
                        for (t, p_) in facts_before(pth, k_):
                            e_ = parse_expr(t)
                            if e_ is not None:
                                fs.add((canon(e_, ev), p_))
                                fs.add((t, p_))
                        inner = admission(cfg.node_of[id(lp)], lp.iter.id) \
                            if isinstance(lp.iter, ast.Name) else [set()]
                        loop_alts += [fs | a for a in inner]
        if loop_alts is None and not isinstance(src, ast.Name):
            raise AnalysisError(
                f'{m.loc(e)}: candidates of ReplaceByVariable do not come '
                'from a named list')
        here = set(facts_at(f, e))
        for alt in (loop_alts if loop_alts is not None
                    else admission(n, src.id)):
            nchain += 1
            facts = alt | here
            desc = ' & '.join(sorted(
                ('' if p_ else 'not ') + t for (t, p_) in alt))[:120]
            ok = ('is_defined_fun(V_)', False) in facts
            chk.check('C03.R4', 'mutators_core.ReplaceByVariable.mutations',
                      f'chain [{desc}]: defined functions excluded', ok,
                      'on some path the emitted candidates are not filtered '
                      'by "not is_defined_fun": replacing a term by a defined '
                      'function symbol and inlining it again is a 2-cycle',
                      loc=m.loc(e), nontrivial=True)
            # unit propagation: not (A and B) with A known true gives not B
            for _round in range(2):
                for (t, p_) in list(facts):
                    if p_:
                        continue
                    e_ = parse_expr(t)
                    if isinstance(e_, ast.BoolOp) and isinstance(
                            e_.op, ast.And):
                        unk = [c_ for c_ in e_.values
                               if (unparse(c_), True) not in facts]
                        if len(unk) == 1:
                            for (x_, q_) in decompose(unk[0], False):
                                facts.add((unparse(x_), q_))
            leaf = any(t in ('is_leaf(node)', 'node.is_leaf()') and p_
                       for (t, p_) in facts)
            if not leaf:
                continue
            inc = [p_ for (t, p_) in facts
                   if t.replace('"', "'") == "self.repl_mode == 'inc'"]
            gt = ('V_ > node.data', True) in facts or (
                'node.data < V_', True) in facts
            lt = ('V_ < node.data', True) in facts or (
                'node.data > V_', True) in facts
            ok = bool(inc) and ((inc[0] and gt and not lt)
                                or (not inc[0] and lt and not gt))
            chk.check('C03.R4', 'mutators_core.ReplaceByVariable.mutations',
                      f'chain [{desc}]: strict order on leaves', ok,
                      'on a leaf the candidates are not restricted to '
                      'strictly larger (inc) / strictly smaller (dec) names: '
                      'a variable can be replaced by itself, or two '
                      'variables can replace each other', loc=m.loc(e),
                      nontrivial=True)
    chk.floor('C03.R4', 'candidate chains of ReplaceByVariable', nchain, 2)
    filt = m.func('ReplaceByVariable.filter')
    ft = unparse(filt)
    chk.check('C03.R4', 'mutators_core.ReplaceByVariable.filter',
              'constants and definition nodes excluded',
              'not is_const(node)' in ft and 'not is_definition_node(' in ft,
              'filter no longer excludes constants / definition nodes',
              loc=m.loc(filt), nontrivial=True)
    # EliminateVariable
    need('mutators_smtlib', 'EliminateVariable', 'global_mutations',
         'c != t', lambda t, p: t in ('c == t', 't == c') and not p,
         'a variable is replaced by itself')
    need('mutators_smtlib', 'EliminateVariable', 'global_mutations',
         't not in dfs(c)', lambda t, p: t.startswith('t in nodes.dfs(')
         and not p, 'a variable is replaced by a term containing it: cycle '
         'with ReplaceByChild')
    # InlineDefinedFuns
    need('mutators_smtlib', 'InlineDefinedFuns', 'mutations',
         'not into own body', lambda t, p: t.startswith('node.id in ')
         and not p, 'a function is inlined into its own body')
    need('mutators_smtlib', 'InlineDefinedFuns', 'mutations',
         'not the definition node', lambda t, p: t ==
         'is_definition_node(node)' and not p,
         'the defined name itself is inlined')
    need('mutators_smtlib', 'InlineDefinedFuns', 'mutations',
         'res != node', lambda t, p: t in ('res == node', 'node == res')
         and not p, 'inlining that returns the node itself is proposed')
    # IntroduceFreshVariable.filter: every "return True" excludes leaves,
    # constants, definition nodes
    ms = prog.mod('mutators_smtlib')
    ff = ms.func('IntroduceFreshVariable.filter')
    fcfg = cfg_of(ff)
    fIN, _ = fcfg.guard_facts()
    nt = 0
    for n in fcfg.nodes:
        if n.kind == 'stmt' and isinstance(n.ast, ast.Return) and not (
                isinstance(n.ast.value, ast.Constant)
                and n.ast.value.value is False):
            nt += 1
            facts = set(fIN.get(n) or ())
            ok = all(_has(facts, lambda t, p, k=k: t == k and not p)
                     for k in ('is_const(node)', 'node.is_leaf()',
                               'is_definition_node(node)'))
            chk.check('C03.R4', 'mutators_smtlib.IntroduceFreshVariable.'
                      'filter', n.ast, ok, 'the filter can accept a leaf, a '
                      'constant or a definition node: a fresh variable is '
                      'replaced by a fresh variable forever',
                      loc=ms.loc(n.ast), nontrivial=True)
    chk.floor('C03.R4', 'accepting returns of IntroduceFreshVariable.filter',
              nt, 2)
    # SimplifySymbolNames
    sf = ms.func('SimplifySymbolNames.filter')
    # every way the filter accepts a node has established that the symbol
    # is not a constant (decision structure over opaque atoms)
    from ..boolfn import BoolFn
    np_ = params_of(sf)[1] if len(params_of(sf)) > 1 else 'node'

    def _atom(e):
        t = unparse(e)
        if t == f'is_const({np_}[1])':
            return ('isconst', True)
        return (t, True)

    try:
        bf = BoolFn(sf, _atom)
        bad = [val for val, res in bf.table()
               if res and val.get('isconst', True)]
        okf = 'isconst' in bf.atom_keys and not bad
        why = ('' if okf else
               'accepted with ' + str({k: v for k, v in (bad[0] if bad
                                                          else {}).items()
                                      if v})[:160])
    except AnalysisError as e_:
        raise AnalysisError(f'C03.R4: SimplifySymbolNames.filter: {e_}')
    chk.check('C03.R4', 'mutators_smtlib.SimplifySymbolNames.filter',
              'not is_const(node[1]) on every accepting path', okf,
              'the filter accepts a command whose symbol is a constant '
              f'({why}): the symbol is renamed to ever shorter names and '
              'back (false -> fals -> fa -> f -> false): a cycle of '
              'accepted renamings', loc=ms.loc(sf), nontrivial=True)
    ss = ms.func('SimplifySymbolNames.__simpler')
    ys = [y for y in ast.walk(ss) if isinstance(y, ast.Yield)]
    chk.floor('C03.R4', 'yields of __simpler', len(ys), 3)
    for y in ys:
        facts = facts_at(ss, y)
        v = y.value
        # slice must strictly shorten under the length guard; the sliced
        # name is the text of the symbol: a parameter, or <parameter>.data
        vn = unparse(v.value) if isinstance(v, ast.Subscript) and isinstance(
            v.value, ast.Name) else None
        ps_ = [a.arg for a in ss.args.args if a.arg != 'self']
        is_text = vn in ps_ or any(
            isinstance(st_, ast.Assign) and any(
                isinstance(t_, ast.Name) and t_.id == vn
                for t_ in st_.targets) and isinstance(
                    st_.value, ast.Attribute) and st_.value.attr == 'data'
            and isinstance(st_.value.value, ast.Name)
            and st_.value.value.id in ps_ for st_ in ast.walk(ss))
        k = None
        for (t, p) in facts:
            if p and vn and t.startswith(f'len({vn}) > '):
                try:
                    k = max(k or 0, int(t.split('>')[1]))
                except ValueError:
                    pass
        ok = k is not None and vn is not None and is_text and isinstance(
            v.slice, ast.Slice)
        if ok:
            t = unparse(v.slice)
            # v[:len//2] needs len>=2 to be non-empty, v[:-1]/[1:] len>=2
            ok = k >= 1 and t in (f':len({vn}) // 2', ':-1', '1:')
        chk.check('C03.R4', 'mutators_smtlib.SimplifySymbolNames.__simpler',
                  y, ok, 'a "simpler" name is not a strictly shorter, '
                  'non-empty slice under a length guard', loc=ms.loc(y),
                  nontrivial=True)
    # constants that are already minimal are excluded by the filters
    for modname, cls in (('mutators_arithmetic',
                          'ArithmeticSimplifyConstant'),
                         ('mutators_bv', 'BVSimplifyConstants')):
        mm = prog.mod(modname)
        fl = mm.func(f'{cls}.filter')
        chk.check('C03.R4', f'{modname}.{cls}.filter', 'value not in [0, 1]',
                  'not in [0, 1]' in unparse(fl),
                  'constants 0 and 1 are simplified again', loc=mm.loc(fl),
                  nontrivial=True)
    bm = prog.mod('mutators_bv')
    bf = bm.func('BVSimplifyConstants.mutations')
    comps = [c for c in ast.walk(bf) if isinstance(c, ast.ListComp)]
    ok = any('v not in [0, 1]' in unparse(c) for c in comps)
    chk.check('C03.R4', 'mutators_bv.BVSimplifyConstants.mutations',
              'derived values exclude 0/1 duplicates', ok,
              'derived smaller values are not filtered', loc=bm.loc(bf))
    sm = prog.mod('mutators_strings')
    sfl = sm.func('StringSimplifyConstant.filter')
    chk.check('C03.R4', 'mutators_strings.StringSimplifyConstant.filter',
              'node != \'""\'', "node != '\"\"'" in unparse(sfl),
              'the empty string literal is simplified again',
              loc=sm.loc(sfl), nontrivial=True)
    nf = bm.func('BVNormalizeConstants.filter')
    chk.check('C03.R4', 'mutators_bv.BVNormalizeConstants.filter',
              'leaf constants only', 'node.is_leaf()' in unparse(nf),
              'already normalised (non-leaf) constants are normalised again',
              loc=bm.loc(nf), nontrivial=True)
    fm = prog.mod('mutators_fp')
    ffl = fm.func('FPShortSort.filter')
    chk.check('C03.R4', 'mutators_fp.FPShortSort.filter', 'long form only',
              'len(node) == 4' in unparse(ffl),
              'short sort names are abbreviated again', loc=fm.loc(ffl),
              nontrivial=True)


# -------------------------------------------------------------------- R10
def _regex_admits(pattern, chars):
    """May a match of ``pattern`` contain one of ``chars``?"""
    try:
        import re._parser as sp
        import re._constants as sc
    except ImportError:  # pragma: no cover
        import sre_parse as sp
        import sre_constants as sc
    codes = {ord(c) for c in chars}

    def rec(items):
        for op, av in items:
            name = str(op)
            if name == 'LITERAL':
                if av in codes:
                    return True
            elif name in ('NOT_LITERAL', 'ANY'):
                return True
            elif name == 'IN':
                neg = any(str(o) == 'NEGATE' for o, _ in av)
                if neg:
                    return True
                for o, a in av:
                    if str(o) == 'LITERAL' and a in codes:
                        return True
                    if str(o) == 'RANGE' and any(a[0] <= c <= a[1]
                                                 for c in codes):
                        return True
                    if str(o) == 'CATEGORY' and 'DIGIT' not in str(a):
                        return True
            elif name in ('MAX_REPEAT', 'MIN_REPEAT', 'POSSESSIVE_REPEAT'):
                if rec(av[2]):
                    return True
            elif name == 'SUBPATTERN':
                if rec(av[3]):
                    return True
            elif name == 'BRANCH':
                if any(rec(b) for b in av[1]):
                    return True
            elif name in ('AT', ):
                continue
            else:
                return True  # unknown construct: assume it may
        return False

    return rec(list(sp.parse(pattern)))


def rule_r10(chk, prog):
    chk.rule('C03.R10', 'ArithmeticSimplifyConstant strictly decreases a '
             'well-founded measure: the constants it reads are non-negative '
             '(sign analysis of get_arith_const and of the lexeme patterns) '
             'and an integer constant is replaced by a floor division of '
             'itself by a constant >= 2')
    sm = prog.mod('smtlib')
    g = sm.func('get_arith_const')
    where = 'smtlib.get_arith_const'
    # lexeme patterns of the constants: no sign
    n = 0
    for fn in ('is_arith_const', 'is_int_const'):
        ff = sm.func(fn)
        # a conversion as the judge of the lexeme (directly or in a helper
        # of the module): float()/int() accept a sign
        scopes_ = [ff] + [sm.funcs[c_.func.id] for c_ in calls_in(ff)
                          if isinstance(c_.func, ast.Name)
                          and c_.func.id in sm.funcs
                          and c_.func.id not in ('is_int_const',
                                                 'is_arith_const',
                                                 'is_real_const')]
        for sc_ in scopes_:
            for c_ in ast.walk(sc_):
                if isinstance(c_, ast.Call) and call_name(c_) in (
                        'float', 'int', 'decimal.Decimal', 'Decimal',
                        'fractions.Fraction', 'Fraction'):
                    n += 1
                    chk.check('C03.R10', f'smtlib.{fn}', c_, False,
                              f'"{unparse(c_)[:40]}" decides whether a leaf '
                              'is an arithmetic constant: it accepts signed '
                              'tokens such as "-1", and -1 // 2 == -1 is '
                              'proposed, accepted and proposed again',
                              loc=sm.loc(c_), nontrivial=True)
        for c in ast.walk(ff):
            pat = None
            if isinstance(c, ast.Call) and (call_name(c) or '').startswith(
                    're.') and c.args and isinstance(
                        c.args[0], ast.Constant) and isinstance(
                            c.args[0].value, str):
                pat = c.args[0].value
            elif isinstance(c, ast.Call) and isinstance(
                    c.func, ast.Attribute) and c.func.attr in (
                        'match', 'fullmatch', 'search') and isinstance(
                            c.func.value, ast.Name) and len(sm.globals.get(
                                c.func.value.id, [])) == 1:
                d = sm.globals[c.func.value.id][0]
                if isinstance(d, ast.Call) and call_name(
                        d) == 're.compile' and d.args and isinstance(
                            d.args[0], ast.Constant) and isinstance(
                                d.args[0].value, str):
                    pat = d.args[0].value
            if pat is not None:
                n += 1
                chk.check('C03.R10', f'smtlib.{fn}', c,
                          not _regex_admits(pat, '-+'),
                          f'the pattern {pat!r} admits a sign: '
                          'the constant mutators assume non-negative values',
                          loc=sm.loc(c), nontrivial=True)
    # a predicate written without a regular expression (a character scan)
    # is judged on the probe leaves of C03.R19 / C15.R14, "+1" and "-1"
    # among them; the patterns found here are the ones that exist
    chk.floor('C03.R10', 'constant lexeme patterns', n, 0)
    defs = single_defs(g)

    def sign(e, depth=0):
        if isinstance(e, ast.Constant) and isinstance(
                e.value, (int, float)) and not isinstance(e.value, bool):
            return 'nonneg' if e.value >= 0 else 'neg'
        if isinstance(e, ast.Call):
            nm = call_name(e) or ''
            if nm in ('float', 'int', 'abs', 'len', 'fractions.Fraction',
                      'Fraction', 'decimal.Decimal') and e.args:
                a = e.args[0]
                if nm in ('abs', 'len'):
                    return 'nonneg'
                if isinstance(a, ast.Attribute) and a.attr == 'data':
                    return 'nonneg'  # a lexeme admitted by the patterns
                return sign(a, depth + 1)
            if nm == g.name:
                return 'nonneg'  # induction over the node
            return 'unknown'
        if isinstance(e, ast.Name) and depth < 4 and e.id in defs:
            return sign(defs[e.id], depth + 1)
        if isinstance(e, ast.BinOp):
            a, b = sign(e.left, depth + 1), sign(e.right, depth + 1)
            if 'unknown' in (a, b):
                return 'unknown'
            if isinstance(e.op, (ast.Add, ast.Mult, ast.Div, ast.FloorDiv,
                                 ast.Pow, ast.Mod)):
                return 'nonneg' if (a, b) == ('nonneg', 'nonneg') else 'neg'
            return 'neg'  # subtraction etc.
        if isinstance(e, ast.UnaryOp):
            if isinstance(e.op, ast.USub):
                return 'neg'
            if isinstance(e.op, ast.UAdd):
                return sign(e.operand, depth + 1)
        if isinstance(e, ast.IfExp):
            a, b = sign(e.body, depth + 1), sign(e.orelse, depth + 1)
            if 'unknown' in (a, b):
                return 'unknown'
            return 'nonneg' if (a, b) == ('nonneg', 'nonneg') else 'neg'
        return 'unknown'

    rets = [r for r in walk_no_nested(g) if isinstance(r, ast.Return)
            and r.value is not None]
    chk.floor('C03.R10', 'return values of get_arith_const', len(rets), 2)
    for r in rets:
        sg = sign(r.value)
        if sg == 'unknown':
            raise AnalysisError(f'C03.R10: {sm.loc(r)}: sign of '
                                f'"{unparse(r.value)}" not decided')
        chk.check('C03.R10', where, r, sg == 'nonneg',
                  f'"{unparse(r.value)}" can be negative: for a negative '
                  'integer i, i // 2 and i // 10 round towards minus '
                  'infinity (-1 // 2 == -1), so the constant is replaced by '
                  'itself and accepted again and again',
                  loc=sm.loc(r), nontrivial=True)
    # the integer proposals
    am = prog.mod('mutators_arithmetic')
    ni = 0
    sites = []
    for q_, mf in am.funcs.items():
        if not q_.startswith('ArithmeticSimplifyConstant.'):
            continue
        mdefs = single_defs(mf)
        ints_ = {v for v, d in mdefs.items() if isinstance(d, ast.Call)
                 and call_name(d) == 'int'}
        for c in ast.walk(mf):
            if isinstance(c, ast.Call) and call_name(c) == 'str' and c.args:
                sites.append((c, ints_))
    for c, ints in sites:
        a = c.args[0]
        names = {x.id for x in ast.walk(a) if isinstance(x, ast.Name)}
        if not (names & ints) or isinstance(a, ast.Name):
            continue
        ni += 1
        ok = isinstance(a, ast.BinOp) and isinstance(
            a.op, ast.FloorDiv) and isinstance(
                a.left, ast.Name) and a.left.id in ints and isinstance(
                    a.right, ast.Constant) and isinstance(
                        a.right.value, int) and a.right.value >= 2
        chk.check('C03.R10', 'mutators_arithmetic.ArithmeticSimplify'
                  'Constant.mutations', c, ok,
                  f'the proposed integer "{unparse(a)}" is not a floor '
                  'division of the constant by a constant >= 2: it is not '
                  'strictly smaller for every admitted value',
                  loc=am.loc(c), nontrivial=True)
    chk.floor('C03.R10', 'integer proposals', ni, 2)


# --------------------------------------------------------------------- R5
def rule_r5(chk, prog):
    chk.rule('C03.R5', 'fixed-point loops of both strategies are left on '
             '"no progress", granularity halves, a ddmin round never goes '
             'back to an earlier subset')
    dm = prog.mod('strategy_ddmin')
    f = dm.func('_apply_mutator')
    loops = [l for l in walk_no_nested(f) if isinstance(l, ast.While)]
    chk.check('C03.R5', 'strategy_ddmin._apply_mutator', 'one granularity '
              'loop', len(loops) == 1, f'{len(loops)} loops', loc=dm.loc(f))
    for l in loops:
        variant, status, msg = classify_loop(dm, f, l)
        if status == 'unknown':
            raise AnalysisError(f'C03.R5: {dm.loc(l)}: {msg}')
        chk.check('C03.R5', 'strategy_ddmin._apply_mutator',
                  f'while {unparse(l.test)} [{variant}]',
                  status == 'ok', msg or
                  'granularity does not shrink on every path', loc=dm.loc(l),
                  nontrivial=True)
    r = dm.func('reduce')
    rcfg = cfg_of(r)
    IN, _ = rcfg.guard_facts()
    wl = [l for l in walk_no_nested(r) if isinstance(l, ast.While)]
    chk.floor('C03.R5', 'fixed-point loops in ddmin.reduce', len(wl), 2)
    # names that hold "number of expressions reduced" of one application
    third = set()
    for st in ast.walk(r):
        if isinstance(st, ast.Assign) and isinstance(
                st.value, ast.Call) and (call_name(st.value) or '').endswith(
                    '_apply_mutator') and isinstance(
                        st.targets[0], ast.Tuple) and len(
                            st.targets[0].elts) == 3 and isinstance(
                                st.targets[0].elts[2], ast.Name):
            third.add(st.targets[0].elts[2].id)
    for l in wl:
        brks = [b for b in ast.walk(l) if isinstance(b, ast.Break)
                and _innermost_loop(b) is l]
        exits = []  # variables whose being zero ends the loop
        ok = True
        for b in brks:
            n = rcfg.node_of[id(b)]
            facts = IN.get(n) or frozenset()
            g = [t for (t, p) in facts if p and t.endswith(' == 0')] + [
                t.replace(' != 0', ' == 0') for (t, p) in facts
                if not p and t.endswith(' != 0')]
            ok = ok and bool(g)
            exits += [t.split(' ==')[0] for t in g]
        if not (isinstance(l.test, ast.Constant) and l.test.value is True):
            # "while v != 0": left when v == 0
            tt = unparse(l.test)
            if tt.endswith(' != 0'):
                exits.append(tt[:-len(' != 0')])
            elif isinstance(l.test, ast.Name):
                exits.append(l.test.id)
            else:
                ok = False
        ok = ok and bool(exits)
        for v in exits:
            # v accumulates/receives only _apply_mutator's third result
            for st in ast.walk(r):
                if isinstance(st, ast.AugAssign) and unparse(
                        st.target) == v:
                    ok = ok and isinstance(st.op, ast.Add) and isinstance(
                        st.value, ast.Name) and st.value.id in third
                elif isinstance(st, ast.Assign) and any(
                        isinstance(t_, ast.Name) and t_.id == v
                        for t_ in st.targets):
                    ok = ok and ((isinstance(st.value, ast.Constant)
                                  and st.value.value in (0, None))
                                 or (isinstance(st.value, ast.Name)
                                     and st.value.id in third))
        chk.check('C03.R5', 'strategy_ddmin.reduce', f'exit of while '
                  f'{unparse(l.test)}', ok, 'the loop is not left exactly '
                  'when a round brought no reduction', loc=dm.loc(l),
                  nontrivial=True)
    # _check_par: restart index only moves forward
    cp = dm.func('_check_par')
    for st in ast.walk(cp):
        if isinstance(st, ast.Assign) and any(
                unparse(t) == 'start_index' for t in st.targets):
            v = unparse(st.value)
            chk.check('C03.R5', 'strategy_ddmin._check_par', st,
                      v in ('0', '-1', 'result.task_id + 1'),
                      'the restart index is set to something other than '
                      '"the subset after the adopted one": a subset can be '
                      'retried for ever', loc=dm.loc(st), nontrivial=True)
    # TaskGenerator.__next__: index strictly increases
    tg = dm.func('TaskGenerator.__next__')
    wl = [l for l in walk_no_nested(tg) if isinstance(l, ast.While)]
    for l in wl:
        cfg = cfg_of(tg)
        head = cfg.node_of[id(l)]
        ok = True
        # including the iterations that end in an exception handler
        for p in loop_body_paths(cfg, l, follow_exc=True):
            if p.end is head:
                incs = [n.ast for n in p.nodes[:-1] if n.kind == 'stmt'
                        and isinstance(n.ast, ast.AugAssign)
                        and unparse(n.ast.target) == 'self.index'
                        and is_const(n.ast.value, 1)]
                ok = ok and len(incs) == 1
        chk.check('C03.R5', 'strategy_ddmin.TaskGenerator.__next__',
                  f'while {unparse(l.test)}', ok,
                  'the task index does not advance on every iteration',
                  loc=dm.loc(l), nontrivial=True)
    # hierarchical: break only under not reduction and fresh_run
    hm = prog.mod('strategy_hierarchical')
    hr = hm.func('reduce')
    hcfg = cfg_of(hr)
    hIN, _ = hcfg.guard_facts()
    wl = [l for l in walk_no_nested(hr) if isinstance(l, ast.While)]
    for l in wl:
        brks = [b for b in ast.walk(l) if isinstance(b, ast.Break)
                and _innermost_loop(b) is l]
        ok = len(brks) >= 1
        for b in brks:
            facts = hIN.get(hcfg.node_of[id(b)]) or frozenset()
            ok = ok and ('reduction', False) in facts
        chk.check('C03.R5', 'strategy_hierarchical.reduce',
                  f'exit of while {unparse(l.test)}', ok,
                  'a pass is not left exactly after a sweep without '
                  'reduction', loc=hm.loc(l), nontrivial=True)
    # reduction flag set only at adoption
    for st in ast.walk(hr):
        if isinstance(st, ast.Assign) and unparse(
                st.targets[0]) == 'reduction' and is_const(st.value, True):
            facts = hIN.get(hcfg.node_of[id(st)]) or frozenset()
            chk.check('C03.R5', 'strategy_hierarchical.reduce', st,
                      ('success', True) in facts,
                      '"reduction" is set without an accepted candidate: the '
                      'pass would be repeated for ever', loc=hm.loc(st),
                      nontrivial=True)


def _innermost_loop(node):
    n = getattr(node, '_parent', None)
    while n is not None:
        if isinstance(n, (ast.For, ast.While)):
            return n
        n = getattr(n, '_parent', None)
    return None


def rule_r8(chk, prog):
    chk.rule('C03.R8', 'quote escaping is applied once: text that is '
             'escaped (" -> "") on its way into a string literal was '
             'unescaped ("" -> ") when it was taken out of one; otherwise '
             'every quote is doubled again and the "shorter" literal is as '
             'long as, or longer than, the one it replaces')
    n = 0
    for m in prog.pkg_modules():
        if not m.name.startswith('mutators_'):
            continue
        for q, f in m.funcs.items():
            for c in calls_in(f):
                if not (isinstance(c.func, ast.Attribute)
                        and c.func.attr == 'replace' and len(c.args) == 2
                        and is_const(c.args[0], '"')
                        and is_const(c.args[1], '""')):
                    continue
                n += 1
                verdict, why = _unescaped_source(m, f, c.func.value, 0, set())
                if verdict == 'unescaped':
                    # ... but was it un-escaped before it was cut?
                    for u in ast.walk(c.func.value):
                        if isinstance(u, ast.Call) and isinstance(
                                u.func, ast.Attribute) and \
                                u.func.attr == 'replace' and len(
                                    u.args) == 2 and is_const(
                                        u.args[0], '""') and is_const(
                                            u.args[1], '"'):
                            late = _cut_before_unescape(m, f, u.func.value,
                                                        0, set())
                            chk.check(
                                'C03.R8', f'{m.name}.{q}',
                                f'{unparse(u)[:60]} [before any cut]',
                                not late,
                                'the body of the literal is cut (sliced / '
                                're-assembled) while it is still escaped and '
                                'un-escaped only afterwards: a cut between '
                                'the two quotes of an escaped pair leaves '
                                'one quote, which is escaped again into a '
                                'pair - the "shorter" literal is the old '
                                'one, an accepted no-op that is proposed '
                                'forever', loc=m.loc(u), nontrivial=True)
                chk.check('C03.R8', f'{m.name}.{q}', c, verdict != 'escaped',
                          'the text that is escaped here still is the '
                          f'escaped body of a string literal ({why}): its '
                          'doubled quotes are doubled again, so a proposal '
                          'that should shorten the literal reproduces or '
                          'lengthens it - an accepted no-op is re-tested '
                          'forever', loc=m.loc(c), nontrivial=True,
                          argument=f'{verdict}: {why}')
    chk.floor('C03.R8', 'escaping sites in the mutators', n, 1)


def _cut_before_unescape(m, f, e, depth, seen, cut=False):
    """Does the text expression ``e`` derive from the (escaped) body of a
    literal through a slice or a concatenation?  Un-escaping it then comes
    too late: the cut may have split an escaped pair."""
    if depth > 8:
        return False
    if isinstance(e, ast.Subscript) and isinstance(e.slice, ast.Slice):
        base = e.value
        if isinstance(base, ast.Attribute) and base.attr == 'data':
            base = base.value
        if isinstance(base, ast.Name) and base.id in params_of(f) and \
                base.id in ('node', 'n', 'term'):
            return cut
        return _cut_before_unescape(m, f, e.value, depth + 1, seen, True)
    if isinstance(e, ast.BinOp) and isinstance(e.op, ast.Add):
        return _cut_before_unescape(m, f, e.left, depth + 1, seen, True) or \
            _cut_before_unescape(m, f, e.right, depth + 1, seen, True)
    if isinstance(e, ast.Name):
        key = (id(f), e.id, cut)
        if key in seen:
            return False
        seen = seen | {key}
        if e.id in params_of(f):
            idx = params_of(f).index(e.id)
            off = 1 if getattr(f, '_class', None) is not None else 0
            for q2, f2 in m.funcs.items():
                for c2 in calls_in(f2):
                    if isinstance(c2.func, ast.Attribute) and \
                            f._qualname.endswith('.' + c2.func.attr) or (
                                isinstance(c2.func, ast.Name)
                                and c2.func.id == f.name):
                        if 0 <= idx - off < len(c2.args) and \
                                _cut_before_unescape(m, f2,
                                                     c2.args[idx - off],
                                                     depth + 1, seen, cut):
                            return True
            return False
        for st in ast.walk(f):
            if isinstance(st, ast.Assign) and any(
                    isinstance(t, ast.Name) and t.id == e.id
                    for t in st.targets) and _cut_before_unescape(
                        m, f, st.value, depth + 1, seen, cut):
                return True
        return False
    if isinstance(e, ast.Call) and isinstance(e.func, ast.Attribute):
        if e.func.attr == 'replace' and len(e.args) == 2 and is_const(
                e.args[0], '""') and is_const(e.args[1], '"'):
            return False  # un-escaped before: cuts after it are fine
        return _cut_before_unescape(m, f, e.func.value, depth + 1, seen, cut)
    return False


def _unescaped_source(m, f, e, depth, seen):
    """'unescaped' | 'escaped' | 'neutral' (no quotes possible / unknown)
    for a text expression, following locals, slices, concatenation and - for
    parameters of a method - the arguments at its call sites in the class."""
    if depth > 8:
        return 'neutral', 'depth'
    if isinstance(e, ast.Call) and isinstance(e.func, ast.Attribute) and \
            e.func.attr == 'replace' and len(e.args) == 2 and is_const(
                e.args[0], '""') and is_const(e.args[1], '"'):
        return 'unescaped', unparse(e)[:40]
    if isinstance(e, ast.Constant):
        return 'neutral', 'constant'
    if isinstance(e, ast.Subscript) and isinstance(e.slice, ast.Slice):
        base = e.value
        if isinstance(base, ast.Attribute) and base.attr == 'data':
            base = base.value
        if isinstance(base, ast.Name) and base.id in params_of(f) and \
                base.id in ('node', 'n', 'term'):
            return 'escaped', f'{unparse(e)} is the body of the literal'
        return _unescaped_source(m, f, e.value, depth + 1, seen)
    if isinstance(e, ast.BinOp) and isinstance(e.op, ast.Add):
        a = _unescaped_source(m, f, e.left, depth + 1, seen)
        b = _unescaped_source(m, f, e.right, depth + 1, seen)
        for x in (a, b):
            if x[0] == 'escaped':
                return x
        for x in (a, b):
            if x[0] == 'unescaped':
                return x
        return a
    if isinstance(e, ast.JoinedStr):
        res = ('neutral', 'f-string')
        for v in e.values:
            if isinstance(v, ast.FormattedValue):
                r = _unescaped_source(m, f, v.value, depth + 1, seen)
                if r[0] == 'escaped':
                    return r
                if r[0] == 'unescaped':
                    res = r
        return res
    if isinstance(e, ast.Name):
        key = (id(f), e.id)
        if key in seen:
            return 'neutral', 'cycle'
        seen = seen | {key}
        if e.id in params_of(f):
            # arguments at the call sites of this method within its class
            res = ('neutral', f'parameter {e.id}')
            idx = params_of(f).index(e.id)
            cls = getattr(f, '_class', None)
            off = 1 if cls is not None else 0
            for q2, f2 in m.funcs.items():
                for c2 in calls_in(f2):
                    if isinstance(c2.func, ast.Attribute) and \
                            f._qualname.endswith('.' + c2.func.attr) or (
                                isinstance(c2.func, ast.Name)
                                and c2.func.id == f.name):
                        if idx - off < len(c2.args) and idx - off >= 0:
                            r = _unescaped_source(m, f2, c2.args[idx - off],
                                                  depth + 1, seen)
                            if r[0] == 'escaped':
                                return r
                            if r[0] == 'unescaped':
                                res = r
            return res
        res = ('neutral', f'no definition of {e.id}')
        for st in ast.walk(f):
            if isinstance(st, ast.Assign) and any(
                    isinstance(t, ast.Name) and t.id == e.id
                    for t in st.targets):
                r = _unescaped_source(m, f, st.value, depth + 1, seen)
                if r[0] == 'escaped':
                    return r
                if r[0] == 'unescaped':
                    res = r
        return res
    if isinstance(e, ast.Call) and isinstance(e.func, ast.Attribute):
        # other string methods keep the status of their receiver
        return _unescaped_source(m, f, e.func.value, depth + 1, seen)
    return 'neutral', unparse(e)[:30]


def _shared_c11_identity(chk, prog, tier):
    """Cycle guards compare identities of sub-nodes with the result of a
    substitution (InlineDefinedFuns: "do not inline a function into its own
    body"): substitute must keep the identity of subtrees in which nothing
    was replaced (shared with C11.R3/R4)."""
    sub = Check('C11', 'other', tier, [], [])
    paths = c11.substitute_taint(sub, prog, 'C11.R1')
    sub.guard(c11.rule_r34, sub, prog, paths)
    sub.instances = [r for r in sub.instances if r['rule'] in ('C11.R3',
                                                              'C11.R4')]
    sub.findings = [f_ for f_ in sub.findings if f_.rule in ('C11.R3',
                                                             'C11.R4')]
    chk.adopt('C03.R7', 'substitution keeps the identity of untouched '
              'subtrees and emits every element exactly once (shared with '
              'C11.R3/R4): identity-based cycle guards (self-inlining) stay '
              'effective', sub)


def rule_r15(chk, prog):
    chk.rule('C03.R15', 'the progress measure that ends ddmin\'s rounds is '
             'the exact change in size: what a worker reports as "reduced" '
             'is the plain difference of the same counter before and after '
             '(it may be negative), not clamped, truncated or made absolute')
    dm = prog.mod('strategy_ddmin')
    f = dm.func('_worker')
    where = 'strategy_ddmin._worker'
    fields = None
    for st in dm.tree.body:
        if isinstance(st, ast.Assign) and isinstance(
                st.value, ast.Call) and (call_name(st.value) or '').endswith(
                    'namedtuple') and isinstance(
                        st.targets[0], ast.Name) and \
                st.targets[0].id == 'Result' and len(st.value.args) == 2 \
                and isinstance(st.value.args[1], (ast.List, ast.Tuple)):
            fields = [x.value for x in st.value.args[1].elts
                      if isinstance(x, ast.Constant)]
    if not fields or 'reduced' not in fields or 'success' not in fields:
        raise AnalysisError('C03.R15: the Result record of strategy_ddmin '
                            f'has the fields {fields}')
    ir, isucc = fields.index('reduced'), fields.index('success')

    def exact(e, depth=0):
        """None if e is count(A) - count(B) with one counter"""
        if depth > 4:
            return f'"{unparse(e)[:40]}"'
        if isinstance(e, ast.Name):
            ds = [st.value for st in ast.walk(f) if isinstance(
                st, ast.Assign) and any(isinstance(t, ast.Name)
                                        and t.id == e.id
                                        for t in st.targets)]
            augs = [st for st in ast.walk(f) if isinstance(
                st, ast.AugAssign) and isinstance(st.target, ast.Name)
                and st.target.id == e.id]
            if augs:
                return f'"{unparse(augs[0])[:40]}" modifies it'
            if not ds:
                return f'"{e.id}" has no definition here'
            for d in ds:
                r = exact(d, depth + 1)
                if r:
                    return r
            return None
        if isinstance(e, ast.BinOp) and isinstance(e.op, ast.Sub):
            a, b = counter_of(e.left), counter_of(e.right)
            if a and a == b:
                return None
        return f'"{unparse(e)[:50]}"'

    def counter_of(e, depth=0):
        """name of the counting function whose result e is"""
        if isinstance(e, ast.Call):
            return call_name(e)
        if isinstance(e, ast.Name) and depth < 3:
            ds = [st.value for st in ast.walk(f) if isinstance(
                st, ast.Assign) and any(isinstance(t, ast.Name)
                                        and t.id == e.id
                                        for t in st.targets)]
            if any(isinstance(st, ast.AugAssign) and isinstance(
                    st.target, ast.Name) and st.target.id == e.id
                   for st in ast.walk(f)):
                return None
            cs = {counter_of(d, depth + 1) for d in ds}
            if len(cs) == 1:
                return cs.pop()
        return None

    n = 0
    for c in ast.walk(f):
        if not (isinstance(c, ast.Call) and isinstance(c.func, ast.Name)
                and c.func.id == 'Result'):
            continue
        args = {}
        for i, a in enumerate(c.args):
            if i < len(fields):
                args[fields[i]] = a
        for k_ in c.keywords:
            if k_.arg:
                args[k_.arg] = k_.value
        su = args.get('success')
        if not (isinstance(su, ast.Constant) and su.value is True):
            continue
        if 'reduced' not in args:
            continue
        n += 1
        why = exact(args['reduced'])
        chk.check('C03.R15', where, c, why is None,
                  f'the "reduced" field of an accepted result is {why}, not '
                  'the difference of the size before and after: a round '
                  'that shrinks and grows the input by the same amount '
                  'counts as progress, and reduce() is left only on a round '
                  'without progress - the same inputs are visited for ever',
                  loc=dm.loc(c), nontrivial=True)
    chk.floor('C03.R15', 'accepted results built by the worker', n, 1)


def rule_r18(chk, prog):
    chk.rule('C03.R18', 'BvMergeExtend makes progress on everything its '
             'filter accepts: the filter only accepts a term whose outer '
             'operator and whose argument\'s operator are the SAME extension '
             '(mutations() strips the levels of the outer operator only; for '
             'two different ones it rebuilds the term as it was - a no-op '
             'that every command accepts, for ever)')
    from ..boolfn import BoolFn
    m = prog.mod('mutators_bv')
    f = m.func('BvMergeExtend.filter')
    np_ = [a.arg for a in f.args.args if a.arg != 'self'][0]

    def _atom(e):
        if isinstance(e, ast.Call) and (call_name(e) or '').split('.')[-1] \
                == 'is_indexed_operator_app' and len(e.args) >= 2 and \
                isinstance(e.args[1], ast.Constant):
            tgt = unparse(e.args[0])
            if tgt == np_:
                return (('outer', e.args[1].value), True)
            if tgt == f'{np_}[1]':
                return (('inner', e.args[1].value), True)
        raise AnalysisError('C03.R18: BvMergeExtend.filter tests '
                            f'"{unparse(e)[:60]}", not the operator of the '
                            'term or of its argument')

    bf = BoolFn(f, _atom)
    bad = []
    n = 0
    for val, res in bf.table():
        if not res:
            continue
        outers = {k[1] for k, v in val.items() if v and k[0] == 'outer'}
        inners = {k[1] for k, v in val.items() if v and k[0] == 'inner'}
        # a term has one operator: valuations with two outer (or two inner)
        # operators at once are infeasible
        if len(outers) > 1 or len(inners) > 1:
            continue
        n += 1
        if not outers or outers != inners:
            bad.append((sorted(outers), sorted(inners)))
    chk.check('C03.R18', 'mutators_bv.BvMergeExtend.filter',
              'outer and inner operator coincide on every accepted term',
              not bad,
              f'the filter accepts a term with outer operator / argument '
              f'operator {bad[:2]}: mutations() then proposes the term '
              'itself (it only merges levels of the outer operator), the '
              'proposal is accepted because nothing changed, and the '
              'hierarchical strategy accepts it again and again',
              loc=m.loc(f), nontrivial=True)
    chk.floor('C03.R18', 'accepting valuations of the filter', n, 2)


def run(tier):
    prog = Program()
    chk = Check(
        PROP, 'other', tier,
        clauses_decided=[
            'each proposal is delivered in bounded work: substitution never '
            're-enters a replacement; every while loop has a recognised '
            'variant; recursion is structural',
            'one-step no-ops are guarded (frozen table of mutators whose '
            'replacement can have the node\'s shape)',
            'fixed-point loops stop on "no progress"; granularity halves; '
            'subsets are not retried',
        ],
        clauses_not_decided=[
            'absence of multi-step cycles between different mutators (the '
            'FAQ concedes no ranking function is known; --check-loops is '
            'the project\'s runtime answer)',
            'memory bounds of materialised generators',
            'ddmin\'s exit test counts expression-count difference, which a '
            'size-increasing accepted mutator can keep non-zero',
        ])
    chk.guard(c11.substitute_taint, chk, prog, 'C03.R1')
    sub11 = Check('C11', 'other', tier, [], [])
    chk.guard(c11.rule_r6, sub11, prog)
    chk.adopt('C03.R6', 'formal->actual substitution is simultaneous (shared '
              'with C11.R6): iterated one-formal-at-a-time substitution '
              're-scans inserted arguments, the instantiated body can double '
              'per parameter', sub11)
    chk.guard(_shared_c11_identity, chk, prog, tier)
    chk.guard(rule_r2, chk, prog)
    chk.guard(rule_r3, chk, prog)
    chk.guard(rule_r4, chk, prog)
    chk.guard(rule_r5, chk, prog)
    chk.guard(rule_r8, chk, prog)
    chk.guard(rule_r10, chk, prog)
    # what "x in node" means decides which nodes the filters accept: a deep
    # search lets a mutator propose the node it was given (shared with C12.R7)
    from . import c12 as _c12
    sub12 = Check('C12', 'other', tier, [], [])
    sub12.rule('C12.R7', 'membership in a node is membership among its '
               'children')
    chk.guard(_c12.rule_r7_contains, sub12, prog)
    chk.adopt('C03.R11', '"x in node" is membership among the children of '
              'the node: the filters that test for a direct child do not '
              'accept a node whose replacement is the node itself (shared '
              'with C12.R7, membership part)', sub12)
    from . import c16
    sub16 = Check('C16', 'other', tier, [], [])
    chk.guard(c16.rule_r8, sub16, prog)
    chk.adopt('C03.R9', 'sort inference is memoised for every result, the '
              '"unknown" one included: it asks for the sort of the same '
              'operand more than once, so without the memo its cost doubles '
              'per nesting level (shared with C16.R8)', sub16)
    def _reviewed_mutators(chk, prog):
        chk.rule('C03.R13', 'the termination argument is per mutator: every '
                 'mutator class of the package is one of the 53 whose '
                 'proposals were reviewed for a decreasing measure or a '
                 'one-step guard (sa/known_mutators.json); a new mutator is '
                 'not covered by the argument')
        import json as _json
        import os as _os
        known = _json.load(open(_os.path.join(_os.path.dirname(
            _os.path.dirname(_os.path.abspath(__file__))),
            'known_mutators.json')))
        n = 0
        new = []
        for m_ in prog.pkg_modules():
            if not m_.name.startswith('mutators_'):
                continue
            for c in m_.tree.body:
                if isinstance(c, ast.ClassDef) and any(
                        isinstance(x, ast.FunctionDef) and x.name in (
                            'mutations', 'global_mutations')
                        for x in c.body):
                    n += 1
                    if c.name not in known.get(m_.name, []) and not any(
                            c.name in v for v in known.values()):
                        new.append(f'{m_.name}.{c.name}')
        chk.instance('C03.R13', 'package', f'{n} mutator classes, all '
                     'reviewed', not new, 'frozen list', nontrivial=True)
        if new:
            raise AnalysisError(
                f'C03.R13: mutator(s) {new} are not in the reviewed list: '
                'whether their proposals strictly decrease a measure (or '
                'cannot be undone by another mutator) has not been argued; '
                'the check cannot vouch for termination with them')

    chk.guard(_reviewed_mutators, chk, prog)
    from .. import mutstate
    chk.guard(mutstate.report, chk, prog, 'C03.R12',
              'mutators keep no state from one call to the next: their '
              'protocol methods store nothing on the object, the class or '
              'module-level containers except option values and constants',
              'a guard that consults a stale table lets the very pair of rewrites through that it exists to break (replace by variable / inline again)')
    from .. import dupcalls
    chk.guard(dupcalls.report, chk, prog, 'C03.R14',
              'a self-recursive inference function of smtlib.py asks for '
              'each sub-result once per path (the functions are not '
              'memoised)',
              'a filter does not deliver its verdict in time bounded by a small function of the input size')
    chk.guard(rule_r15, chk, prog)
    # a single test is bounded by the time limit (shared with C10.R1)
    from . import c10 as _c10
    sub10 = Check('C10', 'other', tier, [], [])
    chk.guard(_c10.rule_r1_r2_r3, sub10, prog)
    Check.restrict(sub10, lambda wh, what: 'execute' in str(wh) and any(
        k in str(what) for k in ('wait', 'communicate', 'kill', 'timeout')))
    chk.adopt('C03.R16', 'every wait for the command is bounded by the time '
              'limit (after the kill nothing blocks on the pipes of a '
              'surviving grandchild): each of the finitely many tests ends '
              '(shared with C10.R1)', sub10)
    from .. import defaultconsts
    chk.guard(defaultconsts.report_are_constants, chk, prog, 'C03.R17',
              'ddSMT\'s own default constants are constants for its own '
              'is_const() (the repository\'s source of get_default_constants '
              'and of the predicates is folded on literal sorts)',
              'a cycle of accepted rewrites: the same inputs are visited for ever')
    chk.guard(rule_r18, chk, prog)
    from .. import probes
    chk.guard(probes.report_constants, chk, prog, 'C03.R19',
              'is_const, folded on literal terms, holds for the constants '
              'of every theory and for nothing else (symbols, quoted '
              'symbols, applications)',
              'the guards that keep constants and variables from being rewritten into each other for ever test the wrong thing')
    extra = None
    if tier == 'thorough':
        from .. import selftest
        extra = selftest.run_for(PROP)
    return chk.finish(extra)
