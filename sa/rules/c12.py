"""C12 - tree equality, hashing, copying, pickling, traversal agree with
structure.  Partial, level 'other': structural obligations of nodes.py."""
import ast
import struct

from ..astutil import (call_name, calls_in, walk_no_nested, params_of, kw,
                       expand_locals, is_const, single_defs,
                       expand_fact_texts)
from ..cfg import (cfg_of, loop_body_paths, expr_owner_node, enumerate_paths,
                   facts_at)
from ..loader import Program, AnalysisError, unparse
from ..pathutil import (node_calls, node_yields, path_method_calls,
                        facts_before, describe_path, method_calls)
from ..report import Check

PROP = 'C12'


def linform(e, syms):
    """Linear form {sym: coef, 1: const} of an integer expression."""
    if isinstance(e, ast.Constant) and isinstance(e.value, int):
        return {1: e.value}
    if isinstance(e, ast.Name) and e.id in syms:
        return {e.id: 1}
    if isinstance(e, ast.BinOp) and isinstance(e.op, (ast.Add, ast.Sub)):
        a, b = linform(e.left, syms), linform(e.right, syms)
        sign = 1 if isinstance(e.op, ast.Add) else -1
        res = dict(a)
        for k, v in b.items():
            res[k] = res.get(k, 0) + sign * v
        return {k: v for k, v in res.items() if v != 0 or k == 1}
    raise AnalysisError(f'not a linear index expression: {unparse(e)}')


def lf_eq(a, b):
    keys = set(a) | set(b)
    return all(a.get(k, 0) == b.get(k, 0) for k in keys)


# --------------------------------------------------------------------- R1
def rule_r1(chk, prog):
    chk.rule('C12.R1', 'hand-written pickle writer and reader agree on tags, '
             'formats, widths, field order, payload framing and codec; '
             'reader restores all slots')
    m = prog.mod('nodes')
    w = m.func('Node.__getstate__')
    r = m.func('Node.__setstate__')
    where_w, where_r = 'nodes.Node.__getstate__', 'nodes.Node.__setstate__'
    # ---- writer: records.  A record = tag bytes constant appended, then a
    # struct.pack, optionally a payload, within one branch.
    wrec = {}
    cfg = cfg_of(w)
    loops = [n for n in walk_no_nested(w) if isinstance(n, ast.While)]
    if len(loops) != 1:
        raise AnalysisError('__getstate__: expected exactly one work loop')
    paths = loop_body_paths(cfg, loops[0])
    for p in paths:
        apps = path_method_calls(p, attr='append')
        # "res += a + b + c" (bytes / bytearray accumulator) emits a, b, c
        emitted = []
        for (i, n, c) in apps:
            if c.args:
                emitted.append((i, c.args[0], unparse(c.func.value), c))
        for i, n in enumerate(p.nodes):
            a_ = n.ast
            if n.kind == 'stmt' and isinstance(a_, ast.AugAssign) and \
                    isinstance(a_.op, ast.Add) and isinstance(
                        a_.target, ast.Name):
                def flat(e_):
                    if isinstance(e_, ast.BinOp) and isinstance(
                            e_.op, ast.Add):
                        return flat(e_.left) + flat(e_.right)
                    return [e_]
                for piece in flat(a_.value):
                    emitted.append((i, piece, a_.target.id, a_))
        emitted.sort(key=lambda t: t[0])
        packs = []
        seq = []
        for (i, a, recv, c) in emitted:
            if isinstance(a, ast.Constant) and isinstance(a.value, bytes):
                seq.append(('tag', a.value, recv, c))
            elif isinstance(a, ast.Call) and call_name(a) == 'struct.pack':
                seq.append(('pack', a, recv, c))
            else:
                seq.append(('val', a, recv, c))
        tags = [s for s in seq if s[0] == 'tag']
        packsq = [s for s in seq if s[0] == 'pack']
        if not packsq:
            continue
        # the tag written to the *result* before the pack
        res_recv = packsq[0][2]
        tag = [s for s in tags if s[2] == res_recv]
        if len(tag) != 1 or len(packsq) != 1:
            raise AnalysisError('__getstate__: record shape not recognised '
                                f'on {describe_path(p)}')
        pk = packsq[0][1]
        fmt = pk.args[0]
        if not is_const(fmt) or not isinstance(fmt.value, str):
            raise AnalysisError('__getstate__: non-literal struct format')
        payload = [s for s in seq if s[0] == 'val' and s[2] == res_recv]
        wrec[tag[0][1]] = {
            'fmt': fmt.value,
            'fields': [expand_locals(w, a) for a in pk.args[1:]],
            'payload': [expand_locals(w, s[1]) for s in payload],
            'closer': [s[1] for s in tags if s[2] != res_recv],
            'loc': m.loc(pk)
        }
    chk.floor('C12.R1', 'record kinds written', len(wrec), 2)
    # explicit closing tag(s) pushed on the work list are written verbatim
    closers = set()
    for rec in wrec.values():
        closers.update(rec['closer'])
    # ---- reader: tag tests `cur == <int>`
    rrec = {}
    rcfg = cfg_of(r)
    rloops = [n for n in walk_no_nested(r) if isinstance(n, ast.While)]
    if len(rloops) != 1:
        raise AnalysisError('__setstate__: expected exactly one loop')
    rparams = params_of(r)
    state = rparams[1]
    # roles: the cursor (left operand of the loop test) and the tag byte
    # (the name bound to state[cursor])
    lt = rloops[0].test
    cursor = lt.left.id if isinstance(lt, ast.Compare) and isinstance(
        lt.left, ast.Name) else 'i'
    tagvar = None
    for st in ast.walk(rloops[0]):
        if isinstance(st, ast.Assign) and isinstance(
                st.targets[0], ast.Name) and unparse(
                    st.value) == f'{state}[{cursor}]':
            tagvar = st.targets[0].id
    tagexpr = f'{state}[{cursor}]'
    if tagvar is None and not any(
            isinstance(x, ast.Compare) and tagexpr in (
                unparse(x.left), unparse(x.comparators[0]))
            for x in ast.walk(rloops[0])):
        raise AnalysisError('__setstate__: tag byte variable not found')

    def is_tag(e):
        return (isinstance(e, ast.Name) and e.id == tagvar) or \
            unparse(e) == tagexpr

    def int_const(e, depth=0):
        if isinstance(e, ast.Constant) and isinstance(e.value, int):
            return e.value
        if isinstance(e, ast.Call) and call_name(e) == 'ord' and len(
                e.args) == 1 and isinstance(
                    e.args[0], ast.Constant) and isinstance(
                        e.args[0].value, (str, bytes)) and len(
                            e.args[0].value) == 1:
            v = e.args[0].value
            return ord(v) if isinstance(v, str) else v[0]
        if isinstance(e, ast.Subscript) and isinstance(
                e.value, ast.Constant) and isinstance(
                    e.value.value, bytes) and isinstance(
                        e.slice, ast.Constant) and len(e.value.value) > 0:
            try:
                return e.value.value[e.slice.value]
            except (IndexError, TypeError):
                return None
        if isinstance(e, ast.Name) and depth < 3 and len(
                m.globals.get(e.id, [])) == 1:
            return int_const(m.globals[e.id][0], depth + 1)
        return None

    for p in loop_body_paths(rcfg, rloops[0]):
        tagv = None
        for (t, pol) in p.facts:
            if not pol:
                continue
            try:
                e_ = ast.parse(t, mode='eval').body
            except SyntaxError:
                continue
            if isinstance(e_, ast.Compare) and len(e_.ops) == 1 and \
                    isinstance(e_.ops[0], ast.Eq):
                l_, r_ = e_.left, e_.comparators[0]
                if is_tag(r_):
                    l_, r_ = r_, l_
                if is_tag(l_):
                    v_ = int_const(r_)
                    if v_ is not None:
                        tagv = v_
        if tagv is None:
            continue
        unp = []
        slforms = {}
        # the cursor and the locals computed from it, as linear forms over
        # the cursor at the start of the iteration ('@i') and opaque names
        env = {cursor: {'@i': 1}}
        fresh = [0]

        def lev(e):
            if isinstance(e, ast.Constant) and isinstance(
                    e.value, int) and not isinstance(e.value, bool):
                return {1: e.value}
            if isinstance(e, ast.Name):
                return dict(env.get(e.id, {e.id: 1}))
            if isinstance(e, ast.BinOp) and isinstance(
                    e.op, (ast.Add, ast.Sub)):
                a_, b_ = lev(e.left), lev(e.right)
                sg = 1 if isinstance(e.op, ast.Add) else -1
                for k_, v_ in b_.items():
                    a_[k_] = a_.get(k_, 0) + sg * v_
                return {k_: v_ for k_, v_ in a_.items() if v_ != 0}
            raise AnalysisError(
                f'not a linear index expression: {unparse(e)}')

        for n in p.nodes[:-1]:
            for c in node_calls(n):
                if call_name(c) == 'struct.unpack':
                    unp.append((n, c))
            a = n.ast
            for e in ast.walk(a) if n.kind == 'stmt' else []:
                if isinstance(e, ast.Subscript) and isinstance(
                        e.value, ast.Name) and e.value.id == state and \
                        isinstance(e.slice, ast.Slice):
                    if e.slice.lower is None or e.slice.upper is None or \
                            e.slice.step is not None:
                        raise AnalysisError(
                            f'__setstate__: open slice {unparse(e)}')
                    slforms[id(e)] = (lev(e.slice.lower),
                                      lev(e.slice.upper))
            if n.kind != 'stmt':
                continue
            if isinstance(a, ast.AugAssign) and isinstance(
                    a.target, ast.Name) and (a.target.id in env
                                             or a.target.id == cursor):
                if not isinstance(a.op, (ast.Add, ast.Sub)):
                    raise AnalysisError(
                        f'__setstate__: {unparse(a)} is not a linear update')
                env[a.target.id] = lev(ast.BinOp(
                    left=ast.Name(id=a.target.id, ctx=ast.Load()), op=a.op,
                    right=a.value))
            elif isinstance(a, ast.Assign):
                for t in a.targets:
                    for nm in ast.walk(t):
                        if not (isinstance(nm, ast.Name) and isinstance(
                                nm.ctx, ast.Store)):
                            continue
                        if isinstance(t, ast.Name):
                            try:
                                env[nm.id] = lev(a.value)
                                continue
                            except AnalysisError:
                                if nm.id == cursor:
                                    raise
                        if nm.id == cursor:
                            raise AnalysisError(
                                '__setstate__: cursor assigned in a tuple')
                        # opaque value (e.g. an unpacked field): a symbol
                        # of its own, fresh if it was already in use
                        if nm.id in env or fresh[0]:
                            pass
                        env.pop(nm.id, None)
        total = dict(env[cursor])
        total['@i'] = total.get('@i', 0) - 1
        total = {k_: v_ for k_, v_ in total.items() if v_ != 0}
        total.setdefault(1, 0)
        rrec[tagv] = {'unpack': unp, 'total': total, 'sl': slforms,
                      'path': p}
    # ---- obligations
    wtags = {t[0]: t for t in list(wrec) + list(closers)}
    for tagb in sorted(set(wrec) | closers):
        chk.check('C12.R1', where_r, f'tag {tagb!r} handled', tagb[0] in rrec,
                  f'the writer emits tag {tagb!r} (byte {tagb[0]}) but the '
                  'reader has no branch for it', loc=m.loc(r),
                  nontrivial=True)
    for tagv in rrec:
        chk.check('C12.R1', where_w, f'byte {tagv} written',
                  any(t[0] == tagv for t in set(wrec) | closers),
                  f'the reader handles byte {tagv} which the writer never '
                  'emits', loc=m.loc(w))
    syms = {cursor, 'leaflen'}
    for tagb, rec in wrec.items():
        rr = rrec.get(tagb[0])
        if rr is None:
            continue
        size = struct.calcsize(rec['fmt'])
        nf = len(struct.unpack(rec['fmt'], b'\0' * size))
        chk.check('C12.R1', where_w, f'{tagb!r}: pack arity',
                  nf == len(rec['fields']),
                  f'format {rec["fmt"]!r} has {nf} fields, '
                  f'{len(rec["fields"])} values packed', loc=rec['loc'])
        ok = len(rr['unpack']) == 1
        chk.check('C12.R1', where_r, f'{tagb!r}: one unpack', ok,
                  f'{len(rr["unpack"])} struct.unpack calls on the '
                  f'{tagb!r} path', loc=m.loc(r))
        if not ok:
            continue
        un, uc = rr['unpack'][0]
        rfmt = uc.args[0]
        chk.check('C12.R1', where_r, f'{tagb!r}: format', is_const(rfmt) and
                  rfmt.value == rec['fmt'],
                  f'writer packs {rec["fmt"]!r}, reader unpacks '
                  f'{unparse(rfmt)}', loc=m.loc(uc), nontrivial=True)
        # header slice state[i+1 : i+1+size]
        sl = uc.args[1]
        if isinstance(sl, ast.Name):
            # "header = state[a:b]; unpack(fmt, header)"
            slname = sl.id
            for n_ in rr['path'].nodes[:-1]:
                a_ = n_.ast
                if n_.kind == 'stmt' and isinstance(a_, ast.Assign) and any(
                        isinstance(t_, ast.Name) and t_.id == slname
                        for t_ in a_.targets) and isinstance(
                            a_.value, ast.Subscript):
                    sl = a_.value
        ok = isinstance(sl, ast.Subscript) and id(sl) in rr['sl']
        if ok:
            lo, hi = rr['sl'][id(sl)]
            ok = lf_eq(lo, {'@i': 1, 1: 1}) and lf_eq(hi, {'@i': 1,
                                                        1: 1 + size})
        chk.check('C12.R1', where_r, f'{tagb!r}: header slice {unparse(sl)}',
                  ok, f'header of {rec["fmt"]!r} is {size} bytes at offset '
                  f'i+1; reader slices {unparse(sl)}', loc=m.loc(uc),
                  nontrivial=True)
        # cursor advance
        total = rr['total']
        want = {1: 1 + size}
        if rec['payload']:
            tg_ = un.ast.targets[0] if isinstance(un.ast, ast.Assign) \
                else None
            ln_ = tg_.elts[1].id if isinstance(tg_, ast.Tuple) and len(
                tg_.elts) == 2 and isinstance(tg_.elts[1], ast.Name) \
                else 'leaflen'
            want[ln_] = 1
        chk.check('C12.R1', where_r, f'{tagb!r}: cursor advance', lf_eq(
            total, want), f'record occupies {want} bytes, cursor advances by '
                  f'{total}', loc=m.loc(r), nontrivial=True)
        # field order + hash width
        hexpr = [unparse(f) for f in rec['fields']]
        if rec['payload']:
            # leaf: (id, length) ; length must be len(payload bytes)
            pay = rec['payload'][0]
            ok = len(hexpr) == 2 and hexpr[0].endswith('.id') and \
                hexpr[1] == f'len({unparse(pay)})'
            chk.check('C12.R1', where_w, f'{tagb!r}: fields {hexpr}', ok,
                      f'leaf header must be (id, len(<payload bytes>)); '
                      f'packed {hexpr}, payload {unparse(pay)} - a length '
                      'counted in characters mis-frames non-ASCII text',
                      loc=rec['loc'], nontrivial=True)
            enc = pay if isinstance(pay, ast.Call) and isinstance(
                pay.func, ast.Attribute) and pay.func.attr == 'encode' else None
            # reader: targets of the unpack
            tg = un.ast.targets[0] if isinstance(un.ast, ast.Assign) else None
            names = [x.id for x in tg.elts] if isinstance(
                tg, ast.Tuple) and all(isinstance(x, ast.Name)
                                       for x in tg.elts) else []
            okr = len(names) == 2
            dec = None
            if okr:
                idn, lenn = names
                # payload slice and decode, _id=
                node_calls_ = [c for n in rr['path'].nodes[:-1]
                               for c in node_calls(n)
                               if call_name(c) == 'Node']
                okr = False
                for c in node_calls_:
                    idkw = kw(c, '_id')
                    if idkw is None or unparse(idkw) != idn or not c.args:
                        continue
                    a0 = c.args[0]
                    if isinstance(a0, ast.Call) and isinstance(
                            a0.func, ast.Attribute) and \
                            a0.func.attr == 'decode' and isinstance(
                                a0.func.value, ast.Subscript):
                        dec = a0
                        s2 = a0.func.value
                        if id(s2) not in rr['sl']:
                            continue
                        lo, hi = rr['sl'][id(s2)]
                        okr = lf_eq(lo, {'@i': 1, 1: 1 + size}) and lf_eq(
                            hi, {'@i': 1, lenn: 1, 1: 1 + size})
                # advance uses the length name
                okr = okr and lf_eq(rr['total'], {lenn: 1, 1: 1 + size})
            chk.check('C12.R1', where_r, f'{tagb!r}: payload framing', okr,
                      'reader must take (id, length) in the writer\'s order, '
                      f'decode state[i+{1+size} : i+{1+size}+length] and '
                      'rebuild the leaf with _id=id', loc=m.loc(r),
                      nontrivial=True)
            codec_ok = enc is not None and dec is not None and \
                [unparse(a) for a in enc.args] == [unparse(a)
                                                   for a in dec.args] and \
                [(k.arg, unparse(k.value)) for k in enc.keywords] == \
                [(k.arg, unparse(k.value)) for k in dec.keywords]
            chk.check('C12.R1', where_r, f'{tagb!r}: codec', codec_ok,
                      'payload is not encoded and decoded with the same '
                      'codec arguments', loc=m.loc(r), nontrivial=True)
        else:
            ok = len(hexpr) == 2 and hexpr[0].endswith('.id') and \
                hexpr[1].endswith('.hash')
            chk.check('C12.R1', where_w, f'{tagb!r}: fields {hexpr}', ok,
                      f'list header must be (id, hash); packed {hexpr}',
                      loc=rec['loc'], nontrivial=True)
            f2 = rec['fmt'].lstrip('=<>!@')
            chk.check('C12.R1', where_w, f'{tagb!r}: hash width',
                      len(f2) == 2 and f2[1] in 'qQ' and f2[1] == 'q',
                      f'hash field format {f2[1:]!r} cannot hold a signed '
                      '64-bit Py_hash_t', loc=rec['loc'], nontrivial=True)
    # closing tag: reader pops (id, hash) in the order they were stored
    for tagb in closers:
        rr = rrec.get(tagb[0])
        if rr is None:
            continue
        pops = []
        for n in rr['path'].nodes[:-1]:
            a = n.ast
            if n.kind == 'stmt' and isinstance(a, ast.Assign) and isinstance(
                    a.value, ast.Call) and isinstance(
                        a.value.func, ast.Attribute) and \
                    a.value.func.attr == 'pop' and a.value.args and \
                    is_const(a.value.args[0], 0) and isinstance(
                        a.targets[0], ast.Name):
                pops.append(a.targets[0].id)
        nc = [c for n in rr['path'].nodes[:-1] for c in node_calls(n)
              if call_name(c) == 'Node']
        ok = len(pops) == 2 and len(nc) == 1 and kw(nc[0], '_id') is not None \
            and unparse(kw(nc[0], '_id')) == pops[0] and kw(
                nc[0], '_hash') is not None and unparse(
                    kw(nc[0], '_hash')) == pops[1] and kw(
                        nc[0], '_data') is not None
        chk.check('C12.R1', where_r, f'{tagb!r}: (id, hash) restored in '
                  'order', ok, 'at the closing tag the reader must take id '
                  'then hash from the frame and pass them as _id/_hash with '
                  'the collected children as _data', loc=m.loc(r),
                  nontrivial=True)
        adv = rr['total']
        chk.check('C12.R1', where_r, f'{tagb!r}: cursor advance',
                  lf_eq(adv, {1: 1}), f'closing tag is 1 byte, cursor '
                  f'advances by {adv}', loc=m.loc(r), nontrivial=True)
    # all slots restored
    slots = _slots(m)
    stored = set()
    for st in walk_no_nested(r):
        if isinstance(st, ast.Assign):
            for t in st.targets:
                if isinstance(t, ast.Attribute) and isinstance(
                        t.value, ast.Name) and t.value.id == rparams[0]:
                    v = st.value
                    if isinstance(v, ast.Attribute) and v.attr == t.attr:
                        stored.add(t.attr)
    chk.check('C12.R1', where_r, f'slots restored {sorted(stored)}',
              stored == set(slots), f'reader restores {sorted(stored)}, the '
              f'class has slots {sorted(slots)}', loc=m.loc(r),
              nontrivial=True)
    # children pushed in reverse, closing marker below them
    for p in paths:
        ext = path_method_calls(p, recv=unparse(loops[0].test), attr='extend')
        for (i, n, c) in ext:
            a = c.args[0]
            ok = isinstance(a, ast.Call) and call_name(a) == 'reversed'
            chk.check('C12.R1', where_w, c, ok,
                      'children must be pushed reversed so that they are '
                      'written in order', loc=m.loc(c), nontrivial=True)


def _slots(m):
    cd = m.cls('Node')
    for st in cd.body:
        if isinstance(st, ast.Assign) and any(
                isinstance(t, ast.Name) and t.id == '__slots__'
                for t in st.targets):
            v = ast.literal_eval(st.value)
            return list(v) if isinstance(v, (tuple, list)) else [v]
    raise AnalysisError('Node.__slots__ not found')


# --------------------------------------------------------------------- R2
def rule_r2(chk, prog):
    chk.rule('C12.R2', 'equality walk: lock-step pops/pushes; every '
             'iteration ends in "different" or after comparing leaf-ness and '
             'text/length; hash and id only as sound short cuts')
    m = prog.mod('nodes')
    f = m.func('Node.__eq__')
    where = 'nodes.Node.__eq__'
    cfg = cfg_of(f)
    loops = [n for n in walk_no_nested(f) if isinstance(n, ast.While)]
    if len(loops) != 1:
        raise AnalysisError('__eq__: expected exactly one loop')
    loop = loops[0]
    head = cfg.node_of[id(loop)]
    stack_self = unparse(loop.test)
    paths = loop_body_paths(cfg, loop)
    # names of the popped nodes
    pops = {}
    for st in ast.walk(loop):
        if isinstance(st, ast.Assign) and isinstance(
                st.value, ast.Call) and isinstance(
                    st.value.func, ast.Attribute) and \
                st.value.func.attr == 'pop' and isinstance(
                    st.targets[0], ast.Name):
            pops[unparse(st.value.func.value)] = st.targets[0].id
    # one stack of pairs: "a, b = <stack>.pop()"
    pair_mode = False
    for st in ast.walk(loop):
        if isinstance(st, ast.Assign) and isinstance(
                st.value, ast.Call) and isinstance(
                    st.value.func, ast.Attribute) and \
                st.value.func.attr == 'pop' and not st.value.args and \
                unparse(st.value.func.value) == stack_self and isinstance(
                    st.targets[0], ast.Tuple) and len(
                        st.targets[0].elts) == 2 and all(
                            isinstance(e, ast.Name)
                            for e in st.targets[0].elts) and not pops:
            pair_mode = True
            pops = {stack_self: st.targets[0].elts[0].id,
                    stack_self + '#2': st.targets[0].elts[1].id}
    ok = len(pops) == 2 and stack_self in pops
    chk.check('C12.R2', where, 'two stacks popped', ok,
              f'expected one pop from each of two stacks, found {pops}',
              loc=m.loc(loop))
    if not ok:
        return
    other_stack = [k for k in pops if k != stack_self][0]
    a, b = pops[stack_self], pops[other_stack]
    n_iter = 0
    for p in paths:
        ends_true = False
        last = p.nodes[-2] if len(p.nodes) > 1 else p.nodes[-1]
        popped = {unparse(c.func.value)
                  for (i, n, c) in path_method_calls(p, attr='pop')}
        if p.end is cfg.exit:
            r = last.ast
            if isinstance(r, ast.Return):
                val = r.value
                if isinstance(val, ast.Constant) and val.value is False:
                    continue  # "different": always sound to refuse
                chk.check('C12.R2', where, r, False,
                          'a return inside the comparison loop yields '
                          f'"{unparse(val)}" instead of False: equality is '
                          'claimed without finishing the walk',
                          loc=m.loc(r), nontrivial=True)
            continue
        if p.end is not head:
            continue
        n_iter += 1
        facts = expand_fact_texts(f, set(p.facts))
        desc = describe_path(p)
        both = popped >= {stack_self, other_stack} or (
            pair_mode and stack_self in popped)
        chk.check('C12.R2', where, f'{desc}: both stacks popped', both,
                  'an iteration pops only one stack: the walk loses '
                  'lock-step', loc=m.loc(loop), nontrivial=True)
        ids_eq = (f'{a}.id == {b}.id', True) in facts or (
            f'{b}.id == {a}.id', True) in facts
        ext = path_method_calls(p, attr='extend')
        if ids_eq and not ext:
            continue  # same object: equal by identity
        leafness = (f'{a}.is_leaf() == {b}.is_leaf()', True) in facts or (
            f'{b}.is_leaf() == {a}.is_leaf()', True) in facts
        is_leaf = (f'{a}.is_leaf()', True) in facts or (f'{b}.is_leaf()',
                                                        True) in facts
        not_leaf = (f'{a}.is_leaf()', False) in facts or (f'{b}.is_leaf()',
                                                          False) in facts
        if not ext:
            data_eq = (f'{a}.data == {b}.data', True) in facts or (
                f'{b}.data == {a}.data', True) in facts
            ok = leafness and is_leaf and data_eq
            chk.check('C12.R2', where, f'{desc}: leaf case', ok,
                      'an iteration continues without pushing children and '
                      'without having established: same leaf-ness, leaf, '
                      f'equal text (facts: leafness={leafness}, '
                      f'leaf={is_leaf}, text={data_eq})', loc=m.loc(loop),
                      nontrivial=True)
        else:
            recvs = sorted(unparse(c.func.value) for (i, n, c) in ext)
            args = {unparse(c.func.value): unparse(c.args[0])
                    for (i, n, c) in ext}
            len_eq = (f'len({a}) == len({b})', True) in facts or (
                f'len({b}) == len({a})', True) in facts
            paired = recvs == sorted([stack_self, other_stack]) and \
                args.get(stack_self) == f'{a}.data' and \
                args.get(other_stack) == f'{b}.data'
            if pair_mode:
                # zip() pairs the children up (equal length is required
                # separately: zip would silently truncate)
                paired = recvs == [stack_self] and args.get(
                    stack_self) in (f'zip({a}.data, {b}.data)',
                                    f'zip({a}, {b})',
                                    f'list(zip({a}.data, {b}.data))')
            ok = leafness and not_leaf and len_eq and paired
            chk.check('C12.R2', where, f'{desc}: list case', ok,
                      'children are pushed without having established: same '
                      'leaf-ness, not leaves, equal length, and pushing the '
                      f'children of both nodes (leafness={leafness}, '
                      f'nonleaf={not_leaf}, len={len_eq}, paired={paired})',
                      loc=m.loc(loop), nontrivial=True)
    chk.floor('C12.R2', 'iteration paths of the equality walk', n_iter, 3)
    # exhaustion of the other stack first => False
    IN, _ = cfg.guard_facts()
    for n in cfg.nodes:
        if n.kind == 'stmt' and isinstance(n.ast, ast.Return) and isinstance(
                n.ast.value, ast.Constant) and n.ast.value.value is True:
            facts = IN.get(n) or frozenset()
            after_loop = (stack_self, False) in facts
            by_id = any(t.endswith('.id == other.id') and p
                        for (t, p) in facts) or any(
                            '.id ==' in t and p for (t, p) in facts)
            chk.check('C12.R2', where, n.ast, after_loop or by_id,
                      '"return True" is reachable neither by identity nor '
                      'after the walk has emptied the stack', loc=m.loc(n.ast),
                      nontrivial=True)


# --------------------------------------------------------------------- R3
def rule_r3(chk, prog):
    chk.rule('C12.R3', 'hash is a function of structure: assigned only from '
             'hash(self.data) or the shipped value; __hash__ returns it; '
             'nobody else writes node slots')
    m = prog.mod('nodes')
    init = m.func('Node.__init__')
    n = 0
    for st in walk_no_nested(init):
        if isinstance(st, ast.Assign):
            for t in st.targets:
                if isinstance(t, ast.Attribute) and t.attr == 'hash':
                    n += 1
                    v = st.value
                    srcs = []
                    if isinstance(v, ast.IfExp):
                        srcs = [v.body, v.orelse]
                    else:
                        srcs = [v]
                    ok = all(unparse(s) in ('_hash', 'hash(self.data)')
                             for s in srcs) and any(
                                 unparse(s) == 'hash(self.data)' for s in srcs)
                    chk.check('C12.R3', 'nodes.Node.__init__', st, ok,
                              'hash slot must be hash(self.data) (or the '
                              'value shipped by the pickler)', loc=m.loc(st),
                              nontrivial=True)
    chk.floor('C12.R3', 'hash assignments in __init__', n, 1)
    h = m.func('Node.__hash__')
    rets = [s for s in walk_no_nested(h) if isinstance(s, ast.Return)]
    chk.check('C12.R3', 'nodes.Node.__hash__', 'returns the slot',
              len(rets) == 1 and unparse(rets[0].value) == 'self.hash',
              '__hash__ does not return the hash slot', loc=m.loc(h))
    # slot writers
    allowed = {'Node.__init__', 'Node.__setstate__'}
    cnt = 0
    for om in prog.pkg_modules():
        for t in ast.walk(om.tree):
            if isinstance(t, ast.Attribute) and isinstance(
                    t.ctx, (ast.Store, ast.Del)) and t.attr in ('id', 'data',
                                                                 'hash'):
                fn = _fn(t)
                cls = _cls(t)
                recv_self = isinstance(t.value, ast.Name) and \
                    t.value.id == 'self'
                if cls is not None and cls.name != 'Node' and recv_self:
                    continue  # another class's own attribute
                cnt += 1
                ok = om.name == 'nodes' and fn in allowed
                chk.check('C12.R3', f'{om.name}.{fn}', _stmt(t), ok,
                          f'node slot .{t.attr} is written outside '
                          'Node.__init__/__setstate__: nodes are shared '
                          'between inputs and must stay immutable',
                          loc=om.loc(t), nontrivial=True)
    chk.floor('C12.R3', 'slot stores', cnt, 6)
    # data slot: str or tuple of converted children
    for st in walk_no_nested(init):
        if isinstance(st, ast.Assign) and any(
                isinstance(t, ast.Attribute) and t.attr == 'data'
                for t in st.targets):
            v = unparse(st.value)

            def converter(e):
                """e (a name / attribute / lambda) maps anything to a
                Node: every return of the function is a Node(..) call or
                the argument itself under isinstance(arg, Node)"""
                if isinstance(e, ast.Lambda) and isinstance(
                        e.body, ast.Call) and len(e.body.args) == 1 and \
                        isinstance(e.body.args[0], ast.Name) and \
                        e.args.args and e.body.args[0].id == \
                        e.args.args[0].arg:
                    e = e.body.func
                nm = None
                if isinstance(e, ast.Name):
                    nm = e.id
                elif isinstance(e, ast.Attribute):
                    nm = e.attr
                g = None
                for q_, f_ in m.funcs.items():
                    if nm and q_.split('.')[-1].endswith(nm):
                        g = f_
                if g is None:
                    return False
                ps_ = [a.arg for a in g.args.args if a.arg != 'self']
                if not ps_:
                    return False
                rets = [r for r in walk_no_nested(g)
                        if isinstance(r, ast.Return)]
                if not rets:
                    return False
                for r in rets:
                    if isinstance(r.value, ast.Call) and call_name(
                            r.value) in ('Node', 'nodes.Node'):
                        continue
                    if isinstance(r.value, ast.Name) and \
                            r.value.id == ps_[0] and (
                                f'isinstance({ps_[0]}, Node)',
                                True) in facts_at(g, r.value):
                        continue
                    return False
                return True

            ok = v in ('_data', 'str(args[0])')
            if not ok and isinstance(st.value, ast.Call) and call_name(
                    st.value) == 'tuple' and len(st.value.args) == 1:
                a0 = st.value.args[0]
                if isinstance(a0, ast.Call) and call_name(a0) == 'map' and \
                        len(a0.args) == 2 and unparse(a0.args[1]) == 'args':
                    ok = converter(a0.args[0])
                elif isinstance(a0, (ast.GeneratorExp, ast.ListComp)) and \
                        len(a0.generators) == 1 and unparse(
                            a0.generators[0].iter) == 'args' and \
                        not a0.generators[0].ifs and isinstance(
                            a0.elt, ast.Call) and len(a0.elt.args) == 1 and \
                        unparse(a0.elt.args[0]) == unparse(
                            a0.generators[0].target):
                    ok = converter(a0.elt.func)
            chk.check('C12.R3', 'nodes.Node.__init__', st, ok,
                      'data slot assigned from an unexpected expression',
                      loc=m.loc(st))


def _fn(node):
    n = getattr(node, '_parent', None)
    while n is not None:
        if isinstance(n, ast.FunctionDef):
            return getattr(n, '_qualname', n.name)
        n = getattr(n, '_parent', None)
    return '<module>'


def _cls(node):
    n = getattr(node, '_parent', None)
    while n is not None:
        if isinstance(n, ast.ClassDef):
            return n
        n = getattr(n, '_parent', None)
    return None


def _stmt(node):
    n = node
    while n is not None and not isinstance(n, ast.stmt):
        n = getattr(n, '_parent', None)
    return n


# --------------------------------------------------------------------- R4
def rule_r4(chk, prog):
    chk.rule('C12.R4', 'fresh identities: _id=/_hash=/_data= only in the '
             'unpickler; ids drawn from the process-shared counter under its '
             'lock')
    # ... and never 0: the constructor, the unpickler and substitute test an
    # id for truth ("if _id", "if expr.id"), so the counter starts at a
    # value >= 0 and is incremented before it is read
    nm_ = prog.mod('nodes')
    for st_ in nm_.cls('Node').body:
        if isinstance(st_, ast.Assign) and isinstance(
                st_.value, ast.Call) and (call_name(st_.value) or ''
                                          ).endswith('Value') and len(
                                              st_.value.args) >= 2:
            init_ = st_.value.args[1]
            v_ = None
            if is_const(init_) and isinstance(init_.value, int):
                v_ = init_.value
            elif isinstance(init_, ast.UnaryOp) and isinstance(
                    init_.op, ast.USub) and is_const(init_.operand):
                v_ = -init_.operand.value
            chk.check('C12.R4', 'nodes.Node', st_, v_ is not None
                      and v_ >= 0,
                      f'the id counter starts at {unparse(init_)}: the '
                      'first node of a process (the first token of the '
                      'parsed input) gets id 0, which the unpickler and '
                      'substitute take for "no id" - a simplification keyed '
                      'on it is ignored and the node changes its identity '
                      'on every trip to a worker', loc=nm_.loc(st_),
                      nontrivial=True)
    cnt = 0
    for om in list(prog.modules.values()):
        for c in ast.walk(om.tree):
            if isinstance(c, ast.Call):
                for k in c.keywords:
                    if k.arg in ('_id', '_hash', '_data'):
                        cnt += 1
                        fn = _fn(c)
                        ok = om.name == 'nodes' and fn == 'Node.__setstate__'
                        chk.check('C12.R4', f'{om.name}.{fn}', c, ok,
                                  f'{k.arg}= is used outside the unpickler: '
                                  'a node is built with a recycled identity '
                                  'or an unchecked hash', loc=om.loc(c),
                                  nontrivial=True)
    chk.floor('C12.R4', '_id=/_hash=/_data= uses', cnt, 3)
    m = prog.mod('nodes')
    # __deepcopy__ builds every node through Node(...) without _id
    dc = m.func('Node.__deepcopy__')
    ncalls = [c for c in calls_in(dc) if call_name(c) == 'Node']
    chk.floor('C12.R4', 'Node(...) constructions in __deepcopy__',
              len(ncalls), 2)
    # roles: the work list (loop test), the popped node, the frame stack
    dloops = [l for l in walk_no_nested(dc) if isinstance(l, ast.While)]
    dwork = unparse(dloops[0].test) if len(dloops) == 1 else None
    dpop = None
    for st in ast.walk(dc):
        if isinstance(st, ast.Assign) and isinstance(
                st.value, ast.Call) and isinstance(
                    st.value.func, ast.Attribute) and \
                st.value.func.attr == 'pop' and dwork is not None and \
                unparse(st.value.func.value) == dwork:
            t_ = st.targets[0]
            dpop = t_.elts[0].id if isinstance(t_, ast.Tuple) else t_.id
    from ..astutil import single_defs as _sd
    dsd = _sd(dc)
    for c in ncalls:
        a = [unparse(x) for x in c.args]
        ok = False
        if len(c.args) == 1 and not c.keywords:
            x = c.args[0]
            if isinstance(x, ast.Starred) and isinstance(x.value, ast.Name):
                # Node(*<children>): children popped from the frame stack
                d_ = dsd.get(x.value.id)
                ok = isinstance(d_, ast.Call) and isinstance(
                    d_.func, ast.Attribute) and d_.func.attr == 'pop' and \
                    unparse(d_.func.value) != dwork
            elif dpop is not None and unparse(x) == f'{dpop}.data':
                # Node(<text of the popped leaf>) under the leaf test
                ok = (f'{dpop}.is_leaf()', True) in facts_at(dc, c)
        chk.check('C12.R4', 'nodes.Node.__deepcopy__', c, ok,
                  'the copy must be built from the original text / the '
                  f'copied children only; found Node({", ".join(a)})',
                  loc=m.loc(c), nontrivial=True)
    # the id source
    cd = m.cls('Node')
    counter = None
    for st in cd.body:
        if isinstance(st, ast.Assign) and isinstance(
                st.value, ast.Call) and call_name(
                    st.value) == 'multiprocessing.Value':
            counter = st.targets[0].id
    chk.check('C12.R4', 'nodes.Node', 'shared id counter', counter is not None,
              'no class-level multiprocessing.Value id counter: ids drawn in '
              'forked workers would repeat ids of the parent and of each '
              'other', loc=m.loc(cd), nontrivial=True)
    gi = m.func('Node.__get_id')
    withs = [w for w in walk_no_nested(gi) if isinstance(w, ast.With)]
    lock_ok = False
    if counter is not None:
        for w in withs:
            it = unparse(w.items[0].context_expr)
            if it.endswith(f'{counter}.get_lock()'):
                incs = [s for s in w.body if isinstance(s, ast.AugAssign)
                        and unparse(s.target).endswith(f'{counter}.value')
                        and isinstance(s.op, ast.Add)
                        and is_const(s.value, 1)]
                rets = [s for s in ast.walk(w) if isinstance(s, ast.Return)]
                allrets = [s for s in walk_no_nested(gi)
                           if isinstance(s, ast.Return)]
                if len(incs) == 1 and rets and len(rets) == len(allrets) and \
                        all(unparse(expand_locals(gi, r.value)).endswith(
                            f'{counter}.value') for r in rets):
                    # the read happens after the increment, inside the lock
                    body = list(w.body)
                    lock_ok = all(body.index(incs[0]) < _top_index(body, r)
                                  for r in rets)
    chk.check('C12.R4', 'nodes.Node.__get_id', 'increment and read under '
              'the counter lock', lock_ok,
              'every id must be the value of the shared counter read right '
              'after incrementing it by one, both inside '
              '"with <counter>.get_lock()"; a per-process cache or counter '
              'hands out the same id in two processes', loc=m.loc(gi),
              nontrivial=True)
    init = m.func('Node.__init__')
    ids = [st for st in walk_no_nested(init) if isinstance(st, ast.Assign)
           and any(isinstance(t, ast.Attribute) and t.attr == 'id'
                   for t in st.targets)]
    ok = len(ids) == 1
    if ok:
        v = ids[0].value
        srcs = [v.body, v.orelse] if isinstance(v, ast.IfExp) else [v]
        ok = all(unparse(s) in ('_id', 'self.__get_id()') for s in srcs) \
            and any(unparse(s) == 'self.__get_id()' for s in srcs)
    chk.check('C12.R4', 'nodes.Node.__init__', 'id source', ok,
              'the id slot must come from __get_id() (or the pickled _id)',
              loc=m.loc(init), nontrivial=True)


def _top_index(body, node):
    n = node
    while n is not None and n not in body:
        n = getattr(n, '_parent', None)
    return body.index(n) if n in body else -1


# --------------------------------------------------------------------- R5

def _counter_by_walk(chk, m, f, fname, kind):
    """A counter written as ``sum(1 for _ in <walk>(node, ...))`` /
    ``len(list(<walk>(...)))``: the walk must be complete (no depth limit)
    and, for count_exprs, filtered by "not a leaf".  Returns False if the
    function does not have this form."""
    rets = [r for r in walk_no_nested(f) if isinstance(r, ast.Return)]
    if len(rets) != 1 or rets[0].value is None:
        return False
    v = expand_locals(f, rets[0].value)
    walk = None
    cond = None
    if isinstance(v, ast.Call) and call_name(v) == 'sum' and len(
            v.args) == 1 and isinstance(v.args[0], ast.GeneratorExp) and \
            isinstance(v.args[0].elt, ast.Constant) and \
            v.args[0].elt.value == 1 and len(v.args[0].generators) == 1:
        g = v.args[0].generators[0]
        walk = g.iter
        if g.ifs:
            cond = (g.target, g.ifs)
    elif isinstance(v, ast.Call) and call_name(v) == 'len' and len(
            v.args) == 1 and isinstance(v.args[0], ast.Call) and call_name(
                v.args[0]) in ('list', 'tuple') and v.args[0].args:
        walk = v.args[0].args[0]
    if not (isinstance(walk, ast.Call) and (call_name(walk) or '').split(
            '.')[-1] in ('dfs', 'bfs', 'filter_nodes')):
        return False
    where = f'nodes.{fname}'
    wn = (call_name(walk) or '').split('.')[-1]
    p0 = params_of(f)[0]
    chk.check('C12.R5', where, f'{unparse(walk)[:60]}: walks the argument',
              bool(walk.args) and unparse(walk.args[0]) == p0,
              'the counter does not walk its argument', loc=m.loc(walk),
              nontrivial=True)
    # effective depth limit
    wf = m.func(wn)
    wps = params_of(wf)
    depth = None
    if 'max_depth' in wps:
        i = wps.index('max_depth')
        if i < len(walk.args):
            depth = walk.args[i]
        elif kw(walk, 'max_depth') is not None:
            depth = kw(walk, 'max_depth')
        else:
            dfl = wf.args.defaults
            di = i - (len(wps) - len(dfl))
            depth = dfl[di] if 0 <= di < len(dfl) else None
    unlimited = depth is None or (isinstance(depth, ast.Constant)
                                  and depth.value in (None, 0))
    chk.check('C12.R5', where, f'{unparse(walk)[:60]}: no depth limit',
              unlimited,
              f'the walk is limited to depth {unparse(depth) if depth is not None else ""} '
              f'(the default of {wn}() when none is given): dfs descends '
              'only while "not max_depth or cur_depth < max_depth", so with '
              'this value nodes below the top level are never visited and '
              'the count is too small', loc=m.loc(walk), nontrivial=True)
    pred = None
    if wn == 'filter_nodes' and len(walk.args) > 1:
        pred = walk.args[1]
    if kind == 'count-lists':
        txt = unparse(pred) if pred is not None else (
            unparse(cond[1][0]) if cond else '')
        ok = 'is_leaf()' in txt and txt.replace(' ', '').startswith(
            ('lambda', 'not')) and 'not' in txt
        chk.check('C12.R5', where, 'counts exactly the non-leaves', ok,
                  f'count_exprs must count the nodes that are not leaves; '
                  f'the filter is "{txt}"', loc=m.loc(walk), nontrivial=True)
    else:
        chk.check('C12.R5', where, 'counts every node',
                  pred is None and cond is None,
                  'count_nodes must count every node of the walk',
                  loc=m.loc(walk), nontrivial=True)
    return True


WALKERS = {
    # func: (container pops, order-sensitive, kind)
    'dfs': ('pop', True, 'yield'),
    'bfs': ('popleft', True, 'yield'),
    'count_nodes': ('pop', False, 'count-all'),
    'count_exprs': ('pop', False, 'count-lists'),
}


def _children_pushed(p, loop, kind):
    """On this iteration path all children of the popped node reach the
    work list exactly once: one extend with popv.data (plain, reversed,
    list()/comprehension over it), or a loop over popv.data that appends
    its variable."""
    work = unparse(loop.test)
    popv = None
    for st in ast.walk(loop):
        if isinstance(st, ast.Assign) and isinstance(
                st.value, ast.Call) and isinstance(
                    st.value.func, ast.Attribute) and st.value.func.attr in (
                        'pop', 'popleft') and unparse(
                            st.value.func.value) == work:
            t = st.targets[0]
            popv = t.elts[-1].id if isinstance(t, ast.Tuple) else t.id
    if popv is None:
        return False
    data = (f'{popv}.data', popv)

    def over_children(e):
        if isinstance(e, ast.Call) and call_name(e) in (
                'reversed', 'list', 'tuple') and e.args:
            return over_children(e.args[0])
        if isinstance(e, (ast.ListComp, ast.GeneratorExp)):
            return len(e.generators) == 1 and unparse(
                e.generators[0].iter).replace('reversed(', '').rstrip(
                    ')') in data
        return unparse(e) in data

    pushes = 0
    for (i, n, c) in path_method_calls(p):
        if unparse(c.func.value) != work or not c.args:
            continue
        if c.func.attr == 'extend' and over_children(c.args[0]):
            pushes += 1
        elif c.func.attr in ('append', 'appendleft') and isinstance(
                c.args[0], ast.Name):
            par = getattr(c, '_parent', None)
            while par is not None and par is not loop:
                if isinstance(par, ast.For) and isinstance(
                        par.target, ast.Name) and \
                        par.target.id == c.args[0].id and unparse(
                            par.iter) in data:
                    pushes += 1
                    break
                par = getattr(par, '_parent', None)
    if pushes == 1:
        return True
    if pushes == 0 and kind == 'count-lists':
        # a loop over the children whose only push is under the leaf filter
        # may contribute no push on the enumerated path (all-leaf branch)
        for st in ast.walk(loop):
            if isinstance(st, ast.For) and unparse(st.iter) in data:
                return any(isinstance(c, ast.Call) and isinstance(
                    c.func, ast.Attribute) and c.func.attr == 'append'
                    and unparse(c.func.value) == work
                    for c in ast.walk(st))
    return False


def rule_r5(chk, prog):
    chk.rule('C12.R5', 'traversal discipline: each popped node handled '
             'exactly once per iteration, children pushed once in the order '
             'the container discipline requires')
    m = prog.mod('nodes')
    for fname, (popm, ordered, kind) in WALKERS.items():
        f = m.func(fname)
        where = f'nodes.{fname}'
        cfg = cfg_of(f)
        loops = [n for n in walk_no_nested(f) if isinstance(n, ast.While)]
        if not loops and kind.startswith('count') and \
                _counter_by_walk(chk, m, f, fname, kind):
            continue
        if len(loops) != 1:
            raise AnalysisError(f'{fname}: expected one work loop')
        paths = loop_body_paths(cfg, loops[0])
        for p in paths:
            if p.end is not cfg.node_of[id(loops[0])]:
                if p.end in (cfg.exit, cfg.raise_exit):
                    chk.check('C12.R5', where, describe_path(p), False,
                              'the walk can leave the loop before the work '
                              'list is empty', loc=m.loc(loops[0]))
                continue
            desc = describe_path(p)
            facts = set(p.facts)
            # the popped node is bound once per iteration and is_leaf() is a
            # pure test of it: a path that takes it both ways is infeasible
            if any(t.endswith('.is_leaf()') and (t, not pol) in facts
                   and t.split('.')[0].isidentifier()
                   and sum(1 for n_ in p.nodes if n_.kind == 'stmt'
                           and isinstance(n_.ast, ast.Assign) and any(
                               isinstance(y, ast.Name)
                               and y.id == t.split('.')[0]
                               and isinstance(y.ctx, ast.Store)
                               for y in ast.walk(n_.ast))) <= 1
                   for (t, pol) in facts):
                continue
            pops = [c for (i, n, c) in path_method_calls(p)
                    if c.func.attr in ('pop', 'popleft')]
            # roles: (depth, node) = <work>.pop()
            popv, depthv = 'expr', 'cur_depth'
            for st_ in ast.walk(loops[0]):
                if isinstance(st_, ast.Assign) and isinstance(
                        st_.value, ast.Call) and isinstance(
                            st_.value.func, ast.Attribute) and \
                        st_.value.func.attr in ('pop', 'popleft'):
                    t_ = st_.targets[0]
                    if isinstance(t_, ast.Tuple) and len(t_.elts) == 2:
                        depthv, popv = t_.elts[0].id, t_.elts[1].id
                    elif isinstance(t_, ast.Name):
                        popv = t_.id
            limitp = params_of(f)[1] if len(params_of(f)) > 1 else 'max_depth'
            chk.check('C12.R5', where, f'{desc}: pop',
                      len(pops) == 1 and pops[0].func.attr == popm and
                      not pops[0].args,
                      f'one {popm}() per iteration expected, found '
                      f'{[unparse(x) for x in pops]}', loc=m.loc(loops[0]),
                      nontrivial=True)
            exts = path_method_calls(p, attr='extend')
            leaf_t = any(t.endswith('.is_leaf()') and pol
                         for (t, pol) in facts)
            leaf_f = any(t.endswith('.is_leaf()') and not pol
                         for (t, pol) in facts)
            if kind == 'yield':
                ys = [y for n in p.nodes[:-1] for y in node_yields(n)]
                chk.check('C12.R5', where, f'{desc}: one yield',
                          len(ys) == 1 and isinstance(ys[0], ast.Yield)
                          and unparse(ys[0].value) == popv,
                          f'{len(ys)} yields on one iteration: a node is '
                          'visited zero times or twice', loc=m.loc(loops[0]),
                          nontrivial=True)
                if exts:
                    c = exts[0][2]
                    txt = unparse(expand_locals(f, c.args[0]))
                    want_rev = (popm == 'pop')
                    has_rev = f'reversed({popv}.data)' in txt
                    plain = f'in {popv}.data' in txt and not has_rev
                    complete = len(exts) == 1 and leaf_f and (
                        has_rev or plain) and f'{depthv} + 1' in txt
                    chk.check('C12.R5', where, f'{unparse(c)} [complete]',
                              complete,
                              'all children must be pushed exactly once, '
                              'under "not leaf", with depth+1', loc=m.loc(c),
                              nontrivial=True)
                    if complete:
                        chk.check('C12.R5', where, f'{unparse(c)} [order]',
                                  has_rev if want_rev else plain,
                                  'children must be pushed '
                                  + ('reversed (stack)' if want_rev else
                                     'in order (queue)')
                                  + ' to be visited in the documented order',
                                  loc=m.loc(c), nontrivial=True)
                else:
                    # no push: leaf, depth limit, or non-Node element
                    ok = leaf_t or any(limitp in t for (t, _) in facts)\
                        or any(t.startswith(f'isinstance({popv}') and not pol
                               for (t, pol) in facts)
                    chk.check('C12.R5', where, f'{desc}: no push', ok,
                              'children of a non-leaf within the depth limit '
                              'are not pushed', loc=m.loc(loops[0]),
                              nontrivial=True)
            else:
                incs = [n.ast for n in p.nodes[:-1]
                        if n.kind == 'stmt' and isinstance(
                            n.ast, ast.AugAssign) and isinstance(
                                n.ast.target, ast.Name)]
                inc1 = [a for a in incs if isinstance(a.op, ast.Add)
                        and is_const(a.value, 1)]
                if kind == 'count-all':
                    ok = len(incs) == 1 and len(inc1) == 1
                    msg = ('every popped node must be counted exactly once')
                else:
                    # count tuples only: increment iff not leaf
                    if leaf_t and not leaf_f:
                        ok = len(incs) == 0
                        msg = ('a leaf is counted by count_exprs (it counts '
                               'tuples only)')
                    elif leaf_f:
                        ok = len(incs) == 1 and len(inc1) == 1
                        msg = 'a tuple must be counted exactly once'
                    else:
                        ok = len(incs) == 0
                        msg = ('the count is incremented before the popped '
                               'node is known to be a tuple')
                chk.check('C12.R5', where, f'{desc}: counting', ok, msg,
                          loc=m.loc(loops[0]), nontrivial=True)
                if leaf_f:
                    ok = _children_pushed(p, loops[0], kind)
                    chk.check('C12.R5', where, f'{desc}: push children', ok,
                              'children of a tuple must be pushed exactly '
                              'once', loc=m.loc(loops[0]), nontrivial=True)
                elif exts:
                    chk.check('C12.R5', where, f'{desc}: push', False,
                              'children pushed for a leaf / unknown node',
                              loc=m.loc(loops[0]))
        # no child is filtered out of the walk (count_exprs may skip
        # leaves, which it does not count)
        for c in calls_in(loops[0]):
            if not (isinstance(c.func, ast.Attribute) and c.func.attr in (
                    'extend', 'append', 'appendleft', 'extendleft')
                    and c.args):
                continue
            a = c.args[0]
            if isinstance(a, ast.Call) and call_name(a) in (
                    'reversed', 'list', 'tuple') and a.args:
                a = a.args[0]
            if isinstance(a, ast.Call) and call_name(a) == 'filter':
                chk.check('C12.R5', where, c, False,
                          'children are filtered before being pushed: the '
                          'walk does not visit every node', loc=m.loc(c),
                          nontrivial=True)
                continue
            if not isinstance(a, (ast.ListComp, ast.GeneratorExp)):
                continue
            for g in a.generators:
                tv = unparse(g.target)
                for cond in g.ifs:
                    ct = unparse(cond)
                    ok = kind == 'count-lists' and ct in (
                        f'not {tv}.is_leaf()', f'not {tv}.is_leaf() == True',
                        f'{tv}.is_leaf() is False',
                        f'{tv}.is_leaf() == False')
                    chk.check('C12.R5', where, f'pushed children filtered '
                              f'by "{ct}"', ok,
                              f'children are pushed only if "{ct}": nodes '
                              'failing the test (e.g. empty lists "()" for '
                              'a length test) are never visited, the walk '
                              'no longer covers every node exactly once',
                              loc=m.loc(c), nontrivial=True)
        chk.floor('C12.R5', f'iteration paths of {fname}', len(paths), 2)
    # dfs/bfs: identical depth handling
    d, b = m.func('dfs'), m.func('bfs')
    td = [unparse(n.test) for n in ast.walk(d) if isinstance(n, ast.If)]
    tb = [unparse(n.test) for n in ast.walk(b) if isinstance(n, ast.If)]
    chk.check('C12.R5', 'nodes.dfs/bfs', 'same depth and leaf tests',
              td == tb, f'dfs tests {td} differ from bfs tests {tb}',
              loc=m.loc(d), nontrivial=True)
    # filter_nodes is dfs + predicate; contains is any(map(func, dfs))
    fn = m.func('filter_nodes')
    ok = any(call_name(c) == 'dfs' for c in calls_in(fn))
    chk.check('C12.R5', 'nodes.filter_nodes', 'built on dfs', ok,
              'filter_nodes no longer traverses with dfs', loc=m.loc(fn))


# ------------------------------------------------------------- R5 (depth)
def _depth_constants(prog, m, fname, pname, depth=0, seen=None):
    """Constants that can reach parameter ``pname`` of ``m.fname``: its
    default, constant arguments at the call sites in the package, and -
    through parameters of the callers - their constants (bounded)."""
    seen = seen or set()
    key = (m.name, fname, pname)
    if key in seen or depth > 4:
        return set()
    seen = seen | {key}
    f = m.func(fname)
    ps = params_of(f)
    if pname not in ps:
        return set()
    out = set()
    idx = ps.index(pname)
    dfl = f.args.defaults
    di = idx - (len(ps) - len(dfl))
    default = None
    if 0 <= di < len(dfl):
        try:
            default = ('default of ' + fname, ast.literal_eval(dfl[di]))
        except ValueError:
            default = None
    omitted = False
    ncalls = 0
    short = fname.split('.')[-1]
    cls = fname.split('.')[0] if '.' in fname else None
    for om in prog.pkg_modules():
        if 'tests' in om.rel():
            continue
        for c in ast.walk(om.tree):
            if not isinstance(c, ast.Call):
                continue
            nm = call_name(c) or ''
            tgt = nm.split('.')[-1]
            off = 0
            if short == '__init__':
                if tgt != cls:
                    continue
                off = 1
            elif tgt != short:
                continue
            elif cls is not None:
                off = 1
            arg = None
            if idx - off < len(c.args) and idx - off >= 0:
                arg = c.args[idx - off]
            for k_ in c.keywords:
                if k_.arg == pname:
                    arg = k_.value
            ncalls += 1
            if arg is None:
                omitted = True
                continue
            if isinstance(arg, ast.Constant):
                out.add((f'{om.rel()}:{c.lineno}', arg.value))
            elif isinstance(arg, ast.Call) and isinstance(
                    arg.func, ast.Attribute) and arg.func.attr == 'get' \
                    and len(arg.args) == 2 and isinstance(
                        arg.args[1], ast.Constant):
                out.add((f'{om.rel()}:{c.lineno} (default of .get)',
                         arg.args[1].value))
            elif isinstance(arg, ast.Name):
                fn = c
                while fn is not None and not isinstance(fn, ast.FunctionDef):
                    fn = getattr(fn, '_parent', None)
                if fn is not None and arg.id in params_of(fn):
                    out |= _depth_constants(prog, om, fn._qualname, arg.id,
                                            depth + 1, seen)
            elif isinstance(arg, ast.Attribute) and isinstance(
                    arg.value, ast.Name) and arg.value.id == 'self':
                # self.max_depth = max_depth in __init__
                cd = getattr(c, '_parent', None)
                while cd is not None and not isinstance(cd, ast.ClassDef):
                    cd = getattr(cd, '_parent', None)
                if cd is not None and f'{cd.name}.__init__' in om.funcs:
                    init = om.funcs[f'{cd.name}.__init__']
                    for st in walk_no_nested(init):
                        if isinstance(st, ast.Assign) and unparse(
                                st.targets[0]) == unparse(arg) and \
                                isinstance(st.value, ast.Name) and \
                                st.value.id in params_of(init):
                            out |= _depth_constants(
                                prog, om, f'{cd.name}.__init__',
                                st.value.id, depth + 1, seen)
    # the default counts when some caller relies on it (or nobody calls)
    if default is not None and (omitted or ncalls == 0):
        out.add(default)
    return out


def _descends(test, pname, depthv, value):
    """Truth of the "descend" condition for a node at depth >= 1 when the
    limit parameter has the constant ``value``; None if undecided."""
    def ev(e):
        if isinstance(e, ast.BoolOp):
            vs = [ev(v) for v in e.values]
            if isinstance(e.op, ast.Or):
                if any(v is True for v in vs):
                    return True
                return False if all(v is False for v in vs) else None
            if any(v is False for v in vs):
                return False
            return True if all(v is True for v in vs) else None
        if isinstance(e, ast.UnaryOp) and isinstance(e.op, ast.Not):
            v = ev(e.operand)
            return None if v is None else not v
        if isinstance(e, ast.Name) and e.id == pname:
            return bool(value)
        if isinstance(e, ast.Compare) and len(e.ops) == 1:
            l, r = unparse(e.left), unparse(e.comparators[0])
            op = e.ops[0]
            if l == pname and isinstance(e.comparators[0], ast.Constant):
                c = e.comparators[0].value
                if isinstance(op, ast.Is):
                    return value is c
                if isinstance(op, ast.IsNot):
                    return value is not c
                try:
                    if isinstance(op, ast.Eq):
                        return value == c
                    if isinstance(op, ast.NotEq):
                        return value != c
                    if isinstance(op, ast.Lt):
                        return value < c
                    if isinstance(op, ast.LtE):
                        return value <= c
                    if isinstance(op, ast.Gt):
                        return value > c
                    if isinstance(op, ast.GtE):
                        return value >= c
                except TypeError:
                    return None
            if {l, r} == {depthv, pname} and isinstance(
                    value, int) and not isinstance(value, bool):
                # depth >= 1 against the constant limit
                lt = isinstance(op, ast.Lt) and l == depthv or \
                    isinstance(op, ast.Gt) and l == pname
                le = isinstance(op, ast.LtE) and l == depthv or \
                    isinstance(op, ast.GtE) and l == pname
                if lt:
                    return False if value <= 1 else None
                if le:
                    return False if value < 1 else None
            return None
        if isinstance(e, ast.Call) and isinstance(
                e.func, ast.Attribute) and e.func.attr == 'is_leaf':
            return False  # an inner node
        if 'isinstance(' in unparse(e):
            return True  # a node
        return None

    return ev(test)


def rule_r5_depth(chk, prog):
    chk.rule('C12.R5', 'walker discipline: DFS/BFS pop from the right end, '
             'visit each node exactly once per iteration, children pushed '
             'once in the order the container discipline requires')
    from ..shape import parse_expr
    m = prog.mod('nodes')
    n = 0
    for fname in ('dfs', 'bfs'):
        f = m.func(fname)
        ps = params_of(f)
        if len(ps) < 2:
            continue
        pname = ps[1]
        loops = [l for l in walk_no_nested(f) if isinstance(l, ast.While)]
        if len(loops) != 1:
            raise AnalysisError(f'C12.R5: {fname}: expected one work loop')
        cfg = cfg_of(f)
        head = cfg.node_of[id(loops[0])]
        paths = [p for p in loop_body_paths(cfg, loops[0])
                 if p.end is head]
        depthv = None
        for st in walk_no_nested(f):
            if isinstance(st, ast.Assign) and isinstance(
                    st.targets[0], ast.Tuple) and 'pop' in unparse(st.value):
                depthv = st.targets[0].elts[0].id
        consts = _depth_constants(prog, m, fname, pname)
        for (src, val) in sorted(consts, key=lambda t: (t[0], repr(t[1]))):
            if isinstance(val, int) and not isinstance(
                    val, bool) and val >= 1:
                continue  # a real limit
            n += 1
            # iteration paths that are possible for an inner node (a Node
            # that is not a leaf) at depth >= 1 when the limit is ``val``
            feasible = []
            undecided = False
            for p in paths:
                okp = True
                for (t, pol) in p.facts:
                    e = parse_expr(t)
                    if e is None:
                        continue
                    tt = t.replace(' ', '')
                    if tt.endswith('.is_leaf()'):
                        v = False
                    elif tt.startswith('isinstance('):
                        v = True
                    elif tt == loops[0].test.id if isinstance(
                            loops[0].test, ast.Name) else False:
                        v = True
                    elif pname not in {x.id for x in ast.walk(e)
                                       if isinstance(x, ast.Name)}:
                        continue
                    else:
                        v = _descends(e, pname, depthv or 'cur_depth', val)
                        if v is None:
                            undecided = True
                            continue
                    if v != pol:
                        okp = False
                        break
                if okp:
                    feasible.append(p)
            pushes = [any(c.func.attr in ('extend', 'append', 'extendleft')
                          for (i_, n_, c) in path_method_calls(p))
                      for p in feasible]
            ok = bool(feasible) and all(pushes) and not undecided
            if undecided and not (feasible and all(pushes)):
                raise AnalysisError(
                    f'C12.R5: {fname}: the tests on {pname} cannot be '
                    f'decided for the value {val!r}')
            if undecided:
                ok = True
            chk.check('C12.R5', f'nodes.{fname}',
                      f'limit {val!r} ({src}) means "no limit"', ok,
                      f'the value {val!r} reaches {fname}()\'s {pname} '
                      f'({src}) where the caller means "no depth limit", '
                      'but with it an inner node at depth >= 1 can take an '
                      'iteration path that does not push its children: the '
                      'walk never descends below the top level, nodes are '
                      'not visited', loc=m.loc(loops[0]), nontrivial=True)
    chk.floor('C12.R5', '"no limit" values reaching dfs/bfs', n, 2)


# --------------------------------------------------------------------- R7
def rule_r7(chk, prog):
    chk.rule('C12.R7', 'a node is the sequence of its children: indexing is '
             'data[key], iteration (zip(node, ...), for x in node, '
             'Node(*node)) yields every element of data in order - it is '
             'either left to __getitem__ or defined as iter(self.data)')
    m = prog.mod('nodes')
    cd = m.cls('Node')
    meths = {st.name: st for st in cd.body
             if isinstance(st, ast.FunctionDef)}
    gi = meths.get('__getitem__')
    if gi is None:
        raise AnalysisError('Node.__getitem__ not found')
    selfp = gi.args.args[0].arg
    keyp = gi.args.args[1].arg if len(gi.args.args) > 1 else None
    rets = [r for r in walk_no_nested(gi) if isinstance(r, ast.Return)]
    ok = len(rets) == 1 and rets[0].value is not None and unparse(
        expand_locals(gi, rets[0].value)) == f'{selfp}.data[{keyp}]'
    chk.check('C12.R7', 'nodes.Node.__getitem__', 'returns data[key]', ok,
              'indexing a node does not return the element of data at that '
              'position', loc=m.loc(gi), nontrivial=True)
    it = meths.get('__iter__')
    if it is None:
        chk.instance('C12.R7', 'nodes.Node', 'no __iter__: iteration uses '
                     '__getitem__ with 0, 1, ... until IndexError', True,
                     'default sequence iteration over data', nontrivial=True,
                     loc=m.loc(cd))
    else:
        sp = it.args.args[0].arg
        rets = [r for r in walk_no_nested(it) if isinstance(r, ast.Return)]
        ys = [y for y in walk_no_nested(it)
              if isinstance(y, (ast.Yield, ast.YieldFrom))]
        good = (f'iter({sp}.data)', f'{sp}.data.__iter__()')
        ok = bool(rets) and not ys and all(
            r.value is not None and unparse(expand_locals(
                it, r.value)) in good for r in rets)
        if not ok and ys and not rets:
            ok = len(ys) == 1 and isinstance(ys[0], ast.YieldFrom) and \
                unparse(ys[0].value) == f'{sp}.data'
        chk.check('C12.R7', 'nodes.Node.__iter__', 'iterates over data', ok,
                  'Node.__iter__ does not simply iterate over data (it '
                  'filters, reorders or wraps the children): every '
                  'zip(node, children), "for x in node" and Node(*node) in '
                  'the traversals, in reduplicate and in the mutators now '
                  'sees a different sequence than node[i] / node.data - '
                  're-duplication pairs old and new children wrongly, '
                  'rebuilt nodes lose elements', loc=m.loc(it),
                  nontrivial=True)


def rule_r1_lengths(chk, prog):
    """Part of C12.R1 that does not depend on the shape of the records:
    whatever frames an encoded text in the pickled state counts bytes."""
    m = prog.mod('nodes')
    w = m.func('Node.__getstate__')
    where = 'nodes.Node.__getstate__'
    defs = {}
    for st in walk_no_nested(w):
        if isinstance(st, ast.Assign) and len(st.targets) == 1 and \
                isinstance(st.targets[0], ast.Name):
            defs.setdefault(st.targets[0].id, []).append(st.value)

    def kind(e, depth=0):
        """'str' / 'bytes' / None for an expression of the writer"""
        if isinstance(e, ast.Constant):
            return 'bytes' if isinstance(e.value, bytes) else (
                'str' if isinstance(e.value, str) else None)
        if isinstance(e, ast.Call) and isinstance(e.func, ast.Attribute):
            if e.func.attr == 'encode':
                return 'bytes'
            if e.func.attr == 'decode':
                return 'str'
        if isinstance(e, ast.Call) and call_name(e) in ('bytes',
                                                        'bytearray'):
            return 'bytes'
        if isinstance(e, ast.Call) and call_name(e) == 'str':
            return 'str'
        if isinstance(e, ast.Attribute) and e.attr == 'data':
            # the text of a leaf (the writer only measures leaves)
            return 'str'
        if isinstance(e, ast.Name) and depth < 4:
            ks = {kind(d, depth + 1) for d in defs.get(e.id, [])}
            if len(ks) == 1:
                return ks.pop()
        return None

    n = 0
    for c in ast.walk(w):
        if not (isinstance(c, ast.Call) and call_name(c) == 'len'
                and len(c.args) == 1):
            continue
        k = kind(c.args[0])
        if k is None:
            continue
        n += 1
        chk.check('C12.R1', where, f'{unparse(c)} measures {k}', k == 'bytes',
                  f'"{unparse(c)}" is the length of a text in characters; '
                  'what is written to the state is its UTF-8 encoding: for '
                  'non-ASCII leaves the reader, which cuts the state in '
                  'bytes, gets a truncated text (or fails to decode it)',
                  loc=m.loc(c), nontrivial=True)
    chk.floor('C12.R1', 'measured texts in the pickle writer', n, 1)


def rule_r7_contains(chk, prog):
    """Second half of C12.R7: membership."""
    m = prog.mod('nodes')
    cd = m.cls('Node')
    meths = {st.name: st for st in cd.body
             if isinstance(st, ast.FunctionDef)}
    co = meths.get('__contains__')
    if co is None:
        chk.instance('C12.R7', 'nodes.Node', 'no __contains__: "x in node" '
                     'compares x with the elements of data in order', True,
                     'default sequence membership', nontrivial=True,
                     loc=m.loc(cd))
        return
    sp = co.args.args[0].arg
    ip = co.args.args[1].arg if len(co.args.args) > 1 else None
    rets = [r for r in walk_no_nested(co) if isinstance(r, ast.Return)]
    good = (f'{ip} in {sp}.data', f'{sp}.data.__contains__({ip})',
            f'any(({ip} == c for c in {sp}.data))',
            f'any((c == {ip} for c in {sp}.data))')
    ok = bool(rets) and all(r.value is not None and unparse(expand_locals(
        co, r.value)) in good for r in rets)
    chk.check('C12.R7', 'nodes.Node.__contains__', 'membership among the '
              'children', ok,
              'Node.__contains__ is not membership among the elements of '
              'data (e.g. it searches the whole subtree): every "x in node" '
              'of the mutators changes its meaning - filters that looked '
              'for a direct child now accept nodes whose proposal is the '
              'node itself, a no-op that is accepted again and again',
              loc=m.loc(co), nontrivial=True)


def rule_r11(chk, prog):
    chk.rule('C12.R11', 'an identity fits the field it is pickled into: the '
             'C type of the shared id counter (multiprocessing.Value) is the '
             'type of every struct field that carries a node id, in the '
             'writer and in the reader')
    import struct as _struct
    m = prog.mod('nodes')
    cd = m.cls('Node')
    code = None
    cst = None
    for st in cd.body:
        if isinstance(st, ast.Assign) and isinstance(
                st.value, ast.Call) and (call_name(st.value) or '').endswith(
                    'Value') and st.value.args and is_const(
                        st.value.args[0]) and isinstance(
                            st.value.args[0].value, str):
            code, cst = st.value.args[0].value, st
    if code is None:
        raise AnalysisError('C12.R11: the shared id counter of Node '
                            '(multiprocessing.Value with a literal type '
                            'code) was not found')
    n = 0
    for q in ('Node.__getstate__', 'Node.__setstate__'):
        f = m.func(q)
        for c in ast.walk(f):
            if not (isinstance(c, ast.Call) and call_name(c) in (
                    'struct.pack', 'struct.unpack', 'struct.unpack_from',
                    'struct.pack_into') and c.args and is_const(c.args[0])
                    and isinstance(c.args[0].value, str)):
                continue
            fmt = c.args[0].value
            chars = [ch for ch in fmt if ch.isalpha()]
            idpos = []
            if call_name(c) == 'struct.pack':
                for i, a in enumerate(c.args[1:]):
                    if isinstance(a, ast.Attribute) and a.attr == 'id':
                        idpos.append(i)
            else:
                # the unpacked tuple: targets named _id / *id
                par = getattr(c, '_parent', None)
                if isinstance(par, ast.Assign) and isinstance(
                        par.targets[0], (ast.Tuple, ast.List)):
                    for i, t in enumerate(par.targets[0].elts):
                        if isinstance(t, ast.Name) and t.id.lstrip(
                                '_').endswith('id'):
                            idpos.append(i)
            for i in idpos:
                if i >= len(chars):
                    continue
                n += 1
                ch = chars[i]
                try:
                    same = _struct.calcsize('=' + ch) == _struct.calcsize(
                        '=' + code) and ch.islower() == code.islower()
                except _struct.error:
                    same = False
                chk.check('C12.R11', f'nodes.{q}',
                          f'{call_name(c)}({fmt!r}) field {i}', same,
                          f'the id counter is a C "{code}" '
                          f'({m.loc(cst)}) but {call_name(c)}({fmt!r}) '
                          f'carries the id in a "{ch}" field: once ids '
                          'exceed the smaller type the tree cannot be sent '
                          'to or from a worker (struct.error), or the id '
                          'that arrives differs from the one sent',
                          loc=m.loc(c), nontrivial=True)
    chk.floor('C12.R11', 'struct fields that carry an id', n, 3)


def run(tier):
    prog = Program()
    chk = Check(
        PROP, 'other', tier,
        clauses_decided=[
            'pickle writer/reader format agreement (tags, struct formats, '
            'widths, offsets, field order, payload length in bytes, codec, '
            'all slots restored)',
            'lock-step equality walk: every way an iteration can end is '
            'justified by identity or by compared leaf-ness + text/length; '
            'no "equal" verdict from hashes',
            'hash/identity provenance; node slots written only by the '
            'constructor and the unpickler',
            'fresh identities in copies; ids drawn under the shared lock',
            'push/pop discipline and once-only handling in dfs, bfs, '
            'count_nodes, count_exprs',
        ],
        clauses_not_decided=[
            'the behavioural statement over all pairs of trees',
            'agreement across real processes (assumes fork shares the '
            'multiprocessing.Value)',
            'binary_search index arithmetic',
        ],
        assumptions=[
            'struct.calcsize of the running interpreter equals that of the '
            'interpreter running ddSMT (standard sizes are forced by "=")',
        ])
    chk.guard(rule_r1, chk, prog)
    chk.guard(rule_r2, chk, prog)
    chk.guard(rule_r3, chk, prog)
    chk.guard(rule_r4, chk, prog)
    chk.guard(rule_r5, chk, prog)
    chk.guard(rule_r5_depth, chk, prog)
    chk.guard(rule_r1_lengths, chk, prog)
    chk.guard(rule_r7, chk, prog)
    chk.guard(rule_r7_contains, chk, prog)
    # "copying yields an equal tree with fresh identities": reduplicate is
    # the copy that re-establishes them (shared with C13.R2-R4)
    from . import c13
    sub13 = Check('C13', 'other', tier, [], [])
    chk.guard(c13.rule_r234, sub13, prog)
    chk.adopt('C12.R6', 're-duplication rebuilds exactly the nodes whose '
              'identity (or a child\'s object) changed and keeps the text '
              '(shared with C13.R2-R4)', sub13)
    from .. import memo

    def _memo_rule(chk, prog):
        chk.rule('C12.R8', 'memoised functions of the node classes: the cached value depends only on the cache key')
        memo.report(chk, prog, 'C12.R8', 'memoised functions of the node classes',
                    lambda m, q: m.name == 'nodes',
                    'equal keys are served the value computed for another object: a structurally equal but distinct tree is pickled / rendered with the identities of the first one')

    chk.guard(_memo_rule, chk, prog)
    from .. import depthrec
    chk.guard(depthrec.report, chk, prog, 'C12.R9',
              'no function of the tree core that implements equality, hashing, copying, pickling or traversal recurses over the nesting depth (directly, through helpers, generators, tuple comparison, deepcopy or the generic pickler)',
              None,
              'equality, copies, pickles and traversals stop agreeing with the structure (they raise) exactly for the deeply nested inputs the explicit stacks were written for')
    # the worker works on the tree that was sent (shared with C05.R4)
    from . import c05 as _c05
    sub05 = Check('C05', 'other', tier, [], [])
    chk.guard(_c05.rule_r4, sub05, prog)
    Check.restrict(sub05, lambda wh, what: not str(what).startswith(
        ('Result(', '(False,', '(True,')))
    chk.adopt('C12.R10', 'a worker unpickles what it was sent: its cache of '
              'the unpickled input is keyed by a digest of the whole pickle, '
              'so the tree it works on equals the tree the main process '
              'sent (shared with C05.R4)', sub05)
    chk.guard(rule_r11, chk, prog)
    extra = None
    if tier == 'thorough':
        from .. import selftest
        extra = selftest.run_for(PROP)
    return chk.finish(extra)
