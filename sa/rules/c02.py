"""C02 - hierarchical/hybrid result is a fixed point of every enabled mutator.

Partial, level 'other': the structural facts from which the fixed point
follows under the stated assumptions about multiprocessing.Pool.  Schedules
are not explored."""
import ast

from ..astutil import (call_name, calls_in, walk_no_nested, params_of, kw,
                       is_const)
from ..cfg import (cfg_of, loop_body_paths, expr_owner_node, enumerate_paths,
                   fact_key)
from ..loader import Program, AnalysisError, unparse, enclosing_stmt
from ..pathutil import describe_path, node_calls, path_method_calls
from ..report import Check
from . import options_table
from .c12 import linform

PROP = 'C02'


# --------------------------------------------------------------------- R1
def rule_r1(chk, prog):
    from . import c14
    chk.rule('C02.R1', 'the last hierarchical pass is a bare list that '
             'names every registered mutator (shared with C14.R3/R4)')
    reg = options_table.registry(prog)
    sub = Check('C14', 'proof', 'quick', [], [])
    table = c14.summarise_get_mutators(sub, prog, reg)
    c14.rule_r4(sub, prog, reg, table)
    n = 0
    for r in sub.instances:
        if 'strategy_hierarchical' in r['where'] or r['rule'] == 'C14.R3':
            n += 1
            chk.instance('C02.R1', r['where'], r['what'],
                         r['verdict'] == 'holds', r['argument'],
                         nontrivial=True, loc=r['loc'])
    for f_ in sub.findings:
        if 'strategy_hierarchical' in f_.where or f_.rule == 'C14.R3':
            chk.violation('C02.R1', f_.where, f_.construct, f_.msg, f_.loc)
    chk.floor('C02.R1', 'pass-builder obligations', n, 100)


# --------------------------------------------------------------------- R2
class AI:
    """Finite abstract interpretation of strategy_hierarchical.reduce over
    skip in {Z(<=0), A(any)} x fresh_run x reduction x abort in {C,S} x
    gen_skip (skip passed to the sweep's generate call)."""

    VARS = ('skip', 'fresh', 'red', 'abort', 'gskip')

    def __init__(self, f, mod):
        self.f = f
        self.mod = mod
        self.cfg = cfg_of(f)

    def transfer(self, n, st):
        skip, fresh, red, abort, gskip = st
        a = n.ast
        outs = None
        if n.kind == 'stmt' and isinstance(a, ast.Assign) and len(
                a.targets) == 1 and isinstance(a.targets[0], ast.Name):
            t = a.targets[0].id
            v = a.value
            if t == 'skip':
                if isinstance(v, ast.Constant) and isinstance(
                        v.value, int) and v.value <= 0:
                    skip = 'Z'
                elif isinstance(v, ast.Call) and call_name(v) == 'min' and \
                        any(unparse(x) == 'skip' for x in v.args):
                    skip = skip  # min(skip, e) <= skip
                else:
                    skip = 'A'
            elif t == 'fresh_run':
                if isinstance(v, ast.Constant) and isinstance(v.value, bool):
                    fresh = v.value
                else:
                    outs = [(skip, True, red, abort, gskip),
                            (skip, False, red, abort, gskip)]
            elif t == 'reduction':
                if isinstance(v, ast.Constant) and isinstance(v.value, bool):
                    red = v.value
                else:
                    outs = [(skip, fresh, True, abort, gskip),
                            (skip, fresh, False, abort, gskip)]
        if n.kind == 'stmt' and isinstance(a, ast.AugAssign) and isinstance(
                a.target, ast.Name) and a.target.id == 'skip':
            skip = 'A'
        # calls evaluated by this node
        for c in node_calls(n):
            if isinstance(c.func, ast.Attribute) and 'abort' in unparse(
                    c.func.value):
                if c.func.attr == 'set':
                    abort = 'S'
                elif c.func.attr == 'clear':
                    abort = 'C'
            if isinstance(c.func, ast.Attribute) and \
                    c.func.attr == 'generate':
                gskip = ('Z' if skip == 'Z' else 'A') + abort
        if outs is not None:
            return outs
        return [(skip, fresh, red, abort, gskip)]

    def edge_ok(self, e, st):
        skip, fresh, red, abort, gskip = st
        for (x, pol) in e.facts:
            t = unparse(x)
            if t.endswith('abort_flag.is_set()'):
                if (abort == 'S') != pol:
                    return False
            elif t == 'reduction':
                if red != pol:
                    return False
            elif t == 'fresh_run':
                if fresh != pol:
                    return False
        return True

    def run(self, start, init):
        states = {n: set() for n in self.cfg.nodes}
        states[start] = set(init)
        work = [start]
        while work:
            n = work.pop()
            for st in list(states[n]):
                for out in self.transfer(n, st):
                    for e in n.succ:
                        if e.kind == 'exc':
                            continue
                        if not self.edge_ok(e, out):
                            continue
                        if out not in states[e.dst]:
                            states[e.dst].add(out)
                            if e.dst not in work:
                                work.append(e.dst)
        return states


def rule_r2(chk, prog):
    chk.rule('C02.R2', 'a pass is left only after a sweep that started at '
             'node 0 with the abort flag clear, was a fresh run and found '
             'no reduction (finite abstract interpretation of reduce)')
    m = prog.mod('strategy_hierarchical')
    f = m.func('reduce')
    where = 'strategy_hierarchical.reduce'
    cfg = cfg_of(f)
    whiles = [w for w in walk_no_nested(f) if isinstance(w, ast.While)]
    if len(whiles) != 1:
        raise AnalysisError('hierarchical.reduce: expected one sweep loop')
    wl = whiles[0]
    head = cfg.node_of[id(wl)]
    ai = AI(f, m)
    # initial states: entry of the function, everything unknown
    init = [(s, fr, rd, ab, None) for s in 'ZA' for fr in (True, False)
            for rd in (True, False) for ab in 'CS']
    states = ai.run(cfg.entry, init)
    # states reaching the loop head from OUTSIDE the loop are determined by
    # the code before it (skip = 0; fresh_run = True); recompute precisely:
    chk.extra['C02.R2_abstract_states'] = sum(len(v) for v in states.values())
    brks = [b for b in ast.walk(wl) if isinstance(b, ast.Break)
            and _innermost_loop(b) is wl]
    chk.floor('C02.R2', 'exits of the sweep loop', len(brks), 1)
    for b in brks:
        n = cfg.node_of[id(b)]
        sts = states[n]
        bad = [s for s in sts if not (s[1] is True and s[2] is False
                                      and s[4] == 'ZC' and s[3] == 'C')]
        ok = bool(sts) and not bad
        msg = ''
        if bad:
            s = sorted(bad, key=str)[0]
            msg = (f'the pass can be left in abstract state skip={s[0]}, '
                   f'fresh_run={s[1]}, reduction={s[2]}, abort={s[3]}, '
                   f'last sweep generated with (skip,abort)={s[4]}: the '
                   'final sweep did not start at node 0 as a fresh run with '
                   'the flag clear, or it found a reduction - candidates at '
                   'earlier nodes (enabled by the last accepted step) are '
                   'never tested')
        chk.check('C02.R2', where, 'state at the exit of the sweep loop', ok,
                  msg or f'{len(sts)} abstract states, all (fresh, no '
                  'reduction, generated from node 0, flag clear)',
                  loc=m.loc(b), nontrivial=True)
    # the sweep is produced from the whole pass: the first argument of the
    # Producer is the mutator list of the pass as get_pass() delivered it,
    # on every definition that reaches the construction
    prods = [c for c in ast.walk(wl) if isinstance(c, ast.Call) and (
        call_name(c) or '').split('.')[-1] == 'Producer' and (
            c.args or c.keywords)]
    pinit = m.funcs.get('Producer.__init__')
    p0 = params_of(pinit)[1] if pinit is not None and len(
        params_of(pinit)) > 1 else None

    def first_arg(c):
        if c.args:
            return c.args[0]
        for k in c.keywords:
            if k.arg == p0:
                return k.value
        return None
    chk.floor('C02.R2', 'Producer constructions in the sweep loop',
              len(prods), 1)
    passvars = set()
    for st in ast.walk(f):
        if isinstance(st, ast.Assign) and isinstance(
                st.targets[0], ast.Tuple) and isinstance(
                    st.value, ast.Call) and (call_name(
                        st.value) or '').split('.')[-1] == 'get_pass' and \
                isinstance(st.targets[0].elts[0], ast.Name):
            passvars.add(st.targets[0].elts[0].id)
        builders = {t_.id for s_ in ast.walk(f) if isinstance(
            s_, ast.Assign) and isinstance(s_.value, ast.Call) and (
                call_name(s_.value) or '').split('.')[-1] == 'get_passes'
            for t_ in s_.targets if isinstance(t_, ast.Name)}
        if isinstance(st, ast.For) and isinstance(
                st.target, ast.Tuple) and isinstance(
                    st.target.elts[0], ast.Name) and (any(
                        isinstance(x, ast.Call) and (call_name(x) or ''
                                                     ).split('.')[-1] in (
                                                         'get_pass',
                                                         'get_passes')
                        for x in ast.walk(st.iter)) or any(
                            isinstance(x, ast.Name) and x.id in builders
                            for x in ast.walk(st.iter))):
            passvars.add(st.target.elts[0].id)
    from ..cfg import reaching_defs
    RDp = reaching_defs(cfg, params_of(f))
    for c in prods:
        a0 = first_arg(c)
        if a0 is None:
            raise AnalysisError('C02.R2: cannot find the mutator list '
                                f'argument of {unparse(c)[:60]}')
        okp = isinstance(a0, ast.Name) and a0.id in passvars
        srcs = []
        if isinstance(a0, ast.Name) and not okp:
            n_ = expr_owner_node(cfg, c)
            ds = (RDp.get(n_) or {}).get(a0.id, ())
            srcs = sorted({unparse(d.ast.value) for d in ds if d != 'param'
                           and isinstance(getattr(d, 'ast', None),
                                          ast.Assign)})
            okp = bool(srcs) and all(v in passvars for v in srcs)
        chk.check('C02.R2', where, f'Producer({unparse(a0)}, ..) gets the '
                  'whole pass', okp,
                  f'the sweep is generated from "{unparse(a0)}"'
                  + (f' (= {srcs})' if srcs else '')
                  + ', not from the mutator list of the pass as get_pass() '
                  'delivers it: the sweep that ends the pass can be one '
                  'over a subset of the enabled mutators, so the result is '
                  'not a fixed point of the others', loc=m.loc(c),
                  nontrivial=True)
    # the break is the only normal exit of the loop
    others = [x for x in ast.walk(wl) if isinstance(x, ast.Return)]
    chk.check('C02.R2', where, 'break is the only exit', not others,
              'the sweep loop contains a return', loc=m.loc(wl))
    # a result read while the flag is set is skipped (never counted as a
    # failure of the new input)
    fors = [l for l in ast.walk(wl) if isinstance(l, ast.For)]
    if len(fors) != 1:
        raise AnalysisError('hierarchical.reduce: result loop not unique')
    fl = fors[0]
    fhead = cfg.node_of[id(fl)]
    chk.rule('C02.R3', 'results read while the abort flag is set are '
             'skipped: they neither count as tested nor are adopted')
    nset = 0
    for p in loop_body_paths(cfg, fl):
        if not any(t.endswith('abort_flag.is_set()') and pol
                   for (t, pol) in p.facts):
            continue
        nset += 1
        ev = [unparse(c) for n in p.nodes[:-1] for c in node_calls(n)]
        touched = [e for e in ev if e.startswith(('stats.add',
                                                  'nodeio.write',
                                                  'nodes.reduplicate'))]
        chk.check('C02.R3', where, f'{describe_path(p)}: discarded result',
                  not touched and p.end is fhead,
                  f'a result arriving while the abort flag is set is '
                  f'processed ({touched[:2]}) instead of skipped',
                  loc=m.loc(fl), nontrivial=True)
    chk.check('C02.R3', where, 'the result loop consults the abort flag',
              nset >= 1, 'no path of the result loop tests the abort flag: '
              'results that arrive after a success (computed against the '
              'superseded input) are processed as if they had been tested '
              'against the new one', loc=m.loc(fl), nontrivial=True)
    # who may set the flag
    nset = 0
    for om in prog.pkg_modules():
        for c in ast.walk(om.tree):
            if isinstance(c, ast.Call) and isinstance(
                    c.func, ast.Attribute) and c.func.attr == 'set' and \
                    'abort' in unparse(c.func.value).lower():
                nset += 1
                fn = _fn(c)
                q = fn._qualname if fn else ''
                ok = (om.name, q) in (('strategy_hierarchical', 'reduce'),
                                      ('strategy_ddmin', '_check_par'))
                chk.check('C02.R2', f'{om.name}.{q}', c, ok,
                          'the abort flag is set outside the adoption '
                          'blocks: a sweep can lose results without a '
                          'reduction being recorded', loc=om.loc(c),
                          nontrivial=True)
    chk.floor('C02.R2', 'abort_flag.set() sites', nset, 2)
    # collect_information + fresh Producer per sweep: C05.R3 covers rebinding


def rule_r12(chk, prog):
    chk.rule('C02.R12', 'a result whose delivered verdict is "accepted" and '
             'that is read while the flag is clear is adopted: on every path '
             'of the result loop the input is replaced unless the verdict '
             'delivered by the worker - not a value computed afterwards - '
             'is false or the flag is set')
    from ..cfg import stmt_effects
    m = prog.mod('strategy_hierarchical')
    f = m.func('reduce')
    where = 'strategy_hierarchical.reduce'
    cfg = cfg_of(f)
    fors = [l for l in ast.walk(f) if isinstance(l, ast.For) and any(
        (call_name(c) or '').split('.')[-1] in ('imap_unordered', 'imap',
                                                'map')
        for c in ast.walk(l.iter) if isinstance(c, ast.Call))]
    if len(fors) != 1:
        raise AnalysisError('hierarchical.reduce: result loop not unique')
    fl = fors[0]
    inp = params_of(f)[0]
    # the delivered verdict: first component unpacked from the result
    unp = [st for st in ast.walk(fl) if isinstance(st, ast.Assign)
           and isinstance(st.targets[0], ast.Tuple) and isinstance(
               st.value, ast.Call) and (call_name(st.value) or '').endswith(
                   'loads')]
    if len(unp) != 1 or not isinstance(unp[0].targets[0].elts[0], ast.Name):
        raise AnalysisError('hierarchical.reduce: cannot find where the '
                            'result is unpacked')
    verdict = unp[0].targets[0].elts[0].id
    un = cfg.node_of[id(unp[0])]
    n = 0
    for p in loop_body_paths(cfg, fl):
        if un not in p.nodes:
            continue
        if any(t.endswith('.is_set()') and pol for (t, pol) in p.facts):
            continue  # discarded result (C02.R3)
        n += 1
        adopted = False
        genuine = True  # the verdict variable still holds what was delivered
        rejected = False
        seen_un = False
        for i, nd in enumerate(p.nodes):
            if nd is un:
                seen_un = True
                continue
            if not seen_un:
                continue
            bound, _ = stmt_effects(nd)
            if verdict in bound:
                genuine = False
            if inp in bound:
                adopted = True
            # a false test of the genuine verdict on the edge leaving nd
            if genuine and i < len(p.steps) and any(
                    (t == verdict and not pol)
                    or (t == f'not {verdict}' and pol)
                    for (t, pol) in p.steps[i]):
                rejected = True
        chk.check('C02.R12', where, f'{describe_path(p)}: accepted => '
                  'adopted', adopted or rejected,
                  'a result is dropped on a path where the verdict delivered '
                  f'by the worker ("{verdict}") was not false'
                  + ('' if genuine else f' ("{verdict}" is overwritten '
                     'before it is tested)')
                  + ': a proposal the command accepts is not adopted, so '
                  'the result is not a fixed point of the enabled mutators',
                  loc=m.loc(fl), nontrivial=True)
    chk.floor('C02.R12', 'paths of the result loop with the flag clear', n,
              2)


def _innermost_loop(node):
    n = getattr(node, '_parent', None)
    while n is not None:
        if isinstance(n, (ast.For, ast.While)):
            return n
        n = getattr(n, '_parent', None)
    return None


def _fn(node):
    n = getattr(node, '_parent', None)
    while n is not None:
        if isinstance(n, ast.FunctionDef):
            return n
        n = getattr(n, '_parent', None)
    return None


# --------------------------------------------------------------------- R4
def rule_r4(chk, prog):
    chk.rule('C02.R4', 'the producer asks every mutator of the pass for '
             'filter, mutations and global_mutations at every BFS node when '
             'skip <= 0')
    m = prog.mod('strategy_hierarchical')
    mn = m.func('Producer.__mutate_node')
    where = 'strategy_hierarchical.Producer.__mutate_node'
    cfg = cfg_of(mn)
    loops = [l for l in walk_no_nested(mn) if isinstance(l, ast.For)
             and getattr(l, '_parent', None) is mn]
    ok = len(loops) == 1 and unparse(loops[0].iter) == 'self.__mutators'
    chk.check('C02.R4', where, 'loop over all mutators of the pass', ok,
              'the producer does not iterate over self.__mutators',
              loc=m.loc(mn), nontrivial=True)
    if not ok:
        return
    ml = loops[0]
    mvar = ml.target.id
    head = cfg.node_of[id(ml)]
    paths = loop_body_paths(cfg, ml)
    nfull = 0
    for p in paths:
        facts = p.facts
        aborted = any(t.endswith('.is_set()') and pol for (t, pol) in facts)
        if aborted:
            continue
        if p.end is not head:
            # leaves the loop without abort: only through an exception
            # handler path (follow_exc False => none) or a break
            chk.check('C02.R4', where, f'{describe_path(p)}: early exit',
                      False, 'the mutator loop is left early although the '
                      'abort flag is clear: later mutators are never asked',
                      loc=m.loc(ml), nontrivial=True)
            continue
        rejected = any(t.startswith(f'{mvar}.filter(') and not pol
                       for (t, pol) in facts)
        if rejected:
            continue
        nfull += 1
        desc = describe_path(p)
        calls = [unparse(c.func) for n in p.nodes[:-1]
                 for c in node_calls(n)]
        for hook in ('mutations', 'global_mutations'):
            tested = [pol for (t, pol) in facts
                      if t == f"hasattr({mvar}, '{hook}')"]
            asked = f'{mvar}.{hook}' in calls
            if not tested:
                chk.check('C02.R4', where, f'{desc}: {hook} consulted',
                          False, f'on this path the mutator is never asked '
                          f'whether it has {hook} (an "elif" makes the two '
                          'hooks exclusive): proposals of mutators that '
                          'implement both are lost', loc=m.loc(ml),
                          nontrivial=True)
            elif tested[0] and not asked:
                chk.check('C02.R4', where, f'{desc}: {hook} called', False,
                          f'{hook} exists but is not called', loc=m.loc(ml),
                          nontrivial=True)
            else:
                chk.instance('C02.R4', where, f'{desc}: {hook}', True,
                             'tested and, if present, iterated',
                             nontrivial=True)
        if any("hasattr(%s, 'filter')" % mvar == t and pol
               for (t, pol) in facts):
            if f'{mvar}.filter' not in calls:
                chk.check('C02.R4', where, f'{desc}: filter', False,
                          'filter exists but is not called', loc=m.loc(ml))
    chk.floor('C02.R4', 'complete paths through the mutator loop', nfull, 2)
    # every proposal is turned into a task (yield inside both hook loops)
    for hook in ('mutations', 'global_mutations'):
        inner = [l for l in ast.walk(ml) if isinstance(l, ast.For)
                 and f'.{hook}(' in unparse(l.iter)]
        ok = len(inner) == 1
        if ok:
            icfg_head = cfg.node_of[id(inner[0])]
            for p in loop_body_paths(cfg, inner[0]):
                aborted = any(t.endswith('.is_set()') and pol
                              for (t, pol) in p.facts)
                if aborted or p.end is not icfg_head:
                    continue
                ys = [y for n in p.nodes[:-1] for e in
                      [n.ast] if n.kind == 'stmt' for y in ast.walk(e)
                      if isinstance(y, ast.Yield)]
                ok = ok and len(ys) == 1
        chk.check('C02.R4', where, f'every {hook} proposal yields a task',
                  ok, f'a proposal of {hook} does not become a task',
                  loc=m.loc(ml), nontrivial=True)
    # generate: guard admits every node when skip <= 0
    g = m.func('Producer.generate')
    gw = 'strategy_hierarchical.Producer.generate'
    gcfg = cfg_of(g)
    from ..astutil import expand_locals
    fl = [l for l in walk_no_nested(g) if isinstance(l, ast.For)]
    it = expand_locals(g, fl[0].iter) if len(fl) == 1 else None
    cvar, first = None, None
    if it is not None and isinstance(it, ast.Call) and call_name(
            it) == 'enumerate' and it.args and isinstance(
                fl[0].target, ast.Tuple) and len(
                    fl[0].target.elts) == 2 and isinstance(
                        fl[0].target.elts[0], ast.Name):
        # for count, node in enumerate(bfs(...), start=S)
        st_ = kw(it, 'start') or (it.args[1] if len(it.args) > 1 else None)
        if st_ is None:
            first = 0
        elif isinstance(st_, ast.Constant) and isinstance(st_.value, int):
            first = st_.value
        cvar = fl[0].target.elts[0].id
        it = expand_locals(g, it.args[0])
    ok = len(fl) == 1 and isinstance(it, ast.Call) and call_name(it) in (
        'nodes.bfs', 'bfs')
    chk.check('C02.R4', gw, 'BFS over the input', ok,
              'generate() does not walk the input in BFS order',
              loc=m.loc(g), nontrivial=True)
    if ok:
        loop = fl[0]
        ghead = gcfg.node_of[id(loop)]
        # count incremented exactly once per node before the guard
        ys = [n for n in ast.walk(loop) if isinstance(n, ast.YieldFrom)]
        ok2 = len(ys) == 1 and '__mutate_node' in unparse(ys[0])
        chk.check('C02.R4', gw, 'yield from __mutate_node', ok2,
                  'generate() does not delegate every node to '
                  '__mutate_node', loc=m.loc(g), nontrivial=True)
        explicit = cvar is None
        if explicit:
            incv = {unparse(n.target) for n in ast.walk(loop)
                    if isinstance(n, ast.AugAssign)
                    and isinstance(n.op, ast.Add) and is_const(n.value, 1)
                    and isinstance(n.target, ast.Name)}
            if len(incv) != 1:
                raise AnalysisError(
                    f'{m.loc(loop)}: node counter of generate() not '
                    f'recognised (incremented names {sorted(incv)})')
            cvar = incv.pop()
        for p in loop_body_paths(gcfg, loop):
            aborted = any(t.endswith('.is_set()') and pol
                          for (t, pol) in p.facts)
            incs = [n.ast for n in p.nodes[:-1] if n.kind == 'stmt'
                    and isinstance(n.ast, ast.AugAssign)
                    and unparse(n.ast.target) == cvar
                    and is_const(n.ast.value, 1)]
            others = [n.ast for n in p.nodes[:-1] if n.kind == 'stmt'
                      and isinstance(n.ast, (ast.Assign, ast.AugAssign))
                      and cvar in [unparse(t_) for t_ in (
                          n.ast.targets if isinstance(n.ast, ast.Assign)
                          else [n.ast.target])] and n.ast not in incs]
            if p.end is ghead and not aborted:
                want = 1 if explicit else 0
                chk.check('C02.R4', gw, f'{describe_path(p)}: node counter',
                          len(incs) == want and not others,
                          'the node counter is not advanced '
                          'exactly once per node', loc=m.loc(loop),
                          nontrivial=True)
            if p.end is not ghead and not aborted:
                chk.check('C02.R4', gw, f'{describe_path(p)}: early exit',
                          False, 'the walk stops early although the abort '
                          'flag is clear', loc=m.loc(loop), nontrivial=True)
        if explicit:
            # count starts at 0 and is incremented before the guard
            init = [st for st in walk_no_nested(g)
                    if isinstance(st, ast.Assign)
                    and unparse(st.targets[0]) == cvar]
            if len(init) == 1 and isinstance(
                    init[0].value, ast.Constant) and isinstance(
                        init[0].value.value, int):
                first = init[0].value.value + 1
            chk.check('C02.R4', gw, 'node counter initialised once',
                      first is not None, 'unexpected initial count',
                      loc=m.loc(g))
        # the guard: linear in skip and count, true for skip<=0 and the
        # first node's number
        guards = [i for i in ast.walk(loop) if isinstance(i, ast.If)
                  and any(isinstance(y, ast.YieldFrom)
                          for b in i.body for y in ast.walk(b))]
        if len(guards) == 1 and len(ys) == 1:
            # must-pass-through: every complete iteration on which the guard
            # admits the node (and the abort flag is clear) delegates the
            # node to __mutate_node - no second condition drops a node
            gtxt = unparse(guards[0].test)
            ystmt = enclosing_stmt(ys[0])
            nadm = 0
            for p in loop_body_paths(gcfg, loop):
                if any(t.endswith('.is_set()') and pol for (t, pol) in p.facts):
                    continue
                if (gtxt, True) not in p.facts or p.end is not ghead:
                    continue
                nadm += 1
                reached = any(n.kind == 'stmt' and n.ast is ystmt
                              for n in p.nodes[:-1])
                chk.check('C02.R4', gw,
                          f'{describe_path(p)}: admitted node delegated',
                          reached, 'a node the skip guard admits is passed '
                          'over without being handed to __mutate_node: its '
                          'simplifications are never proposed, in no sweep, '
                          'so the result need not be a fixed point',
                          loc=m.loc(loop), nontrivial=True)
            chk.floor('C02.R4', 'iterations admitted by the skip guard',
                      nadm, 1)
        ok3 = len(guards) == 1 and first is not None
        msg = 'the delegation to __mutate_node is not under one guard'
        if ok3:
            t = guards[0].test
            ok3 = False
            msg = (f'guard "{unparse(t)}" is not of the form skip+a < '
                   f'{cvar}+b')
            if explicit:
                # the increment must precede the guard
                gnode = gcfg.node_of.get(id(guards[0]))
                marks = {gcfg.node_of[id(n)]: 'inc' for n in ast.walk(loop)
                         if isinstance(n, ast.AugAssign)
                         and unparse(n.target) == cvar
                         and id(n) in gcfg.node_of}
                IN_, _ = gcfg.dominators_facts(marks)
                if 'inc' not in (IN_.get(gnode) or ()):
                    first -= 1
            if isinstance(t, ast.Compare) and len(t.ops) == 1 and isinstance(
                    t.ops[0], (ast.Lt, ast.LtE, ast.Gt, ast.GtE)):
                try:
                    l = linform(t.left, {'skip', cvar})
                    r = linform(t.comparators[0], {'skip', cvar})
                    if isinstance(t.ops[0], (ast.Gt, ast.GtE)):
                        l, r = r, l
                    strict = isinstance(t.ops[0], (ast.Lt, ast.Gt))
                    # r - l > 0 (or >= 0) must hold for skip<=0 and the
                    # number of the first node
                    d = {k: r.get(k, 0) - l.get(k, 0)
                         for k in set(l) | set(r)}
                    cs, cc, c0 = d.get('skip', 0), d.get(cvar, 0), d.get(
                        1, 0)
                    worst = cc * first + c0  # skip = 0, first node
                    ok3 = cs <= 0 and cc >= 1 and (worst > 0 if strict
                                                   else worst >= 0)
                    msg = (f'with skip <= 0 the guard "{unparse(t)}" rejects '
                           f'the first node(s) (numbered from {first}): they '
                           'are never mutated in the final sweep')
                except AnalysisError:
                    pass
        chk.check('C02.R4', gw, 'guard admits every node when skip <= 0',
                  ok3, msg, loc=m.loc(g), nontrivial=True)
    # Consumer.check returns failure (not success) on abort / exception
    # (shared with C05.R4)


def rule_r5(chk, prog):
    """Inputs of a sweep are identity-distinct (a proposal keyed by id hits
    the position it was computed for) - shared with C13.R1-R4."""
    from . import c13
    chk.rule('C02.R5', 'every sweep starts from a re-duplicated input and '
             're-duplication really yields identity-distinct nodes (shared '
             'with C13.R1-R4): identity-keyed proposals hit the node they '
             'were computed for')
    sub = Check('C13', 'other', 'quick', [], [])
    chk.guard(c13.rule_r1, sub, prog)
    chk.guard(c13.rule_r234, sub, prog)
    for r in sub.instances:
        if 'strategy_hierarchical' in r['where'] or 'nodes.' in r['where']:
            chk.instance('C02.R5', r['where'], r['what'],
                         r['verdict'] == 'holds', r['argument'],
                         nontrivial=True, loc=r['loc'])
    for f_ in sub.findings:
        if 'strategy_hierarchical' in f_.where or 'nodes.' in f_.where:
            chk.violation('C02.R5', f_.where, f_.construct,
                          f'[{f_.rule}] {f_.msg}', f_.loc)


def rule_r6(chk, prog):
    """The information the filters consult (definition nodes, sort table,
    caches) is rebuilt from the current input before every sweep: a stale
    entry makes a filter skip a node for the rest of the run."""
    from . import c16
    sub = Check('C16', 'other', 'quick', [], [])
    chk.guard(c16.rule_r6, sub, prog)
    chk.adopt('C02.R6', 'the tables the mutator filters consult are reset '
              'and rebuilt for every sweep (shared with C16.R6): no filter '
              'decision is based on an earlier input', sub)
    m = prog.mod('strategy_hierarchical')
    f = m.func('reduce')
    # collect_information(exprs) inside the repeat loop, before the Producer
    # of the sweep is built
    loops = [l for l in ast.walk(f) if isinstance(l, ast.While)]
    ok = False
    for lp in loops:
        inner = [l2 for l2 in ast.walk(lp) if isinstance(l2, ast.While)
                 and l2 is not lp]
        if inner:
            continue  # the innermost repeat loop
        ci = [c for c in calls_in(lp) if (call_name(c) or '').endswith(
            'collect_information')]
        # ... or a helper of the module that does it (one level)
        for hc in calls_in(lp):
            if isinstance(hc.func, ast.Name) and hc.func.id in m.funcs and \
                    any((call_name(c2) or '').endswith('collect_information')
                        for c2 in calls_in(m.funcs[hc.func.id])):
                ci.append(hc)
        ci.sort(key=lambda c_: c_.lineno)
        pr = [c for c in calls_in(lp) if call_name(c) == 'Producer']
        if ci and pr and ci[0].lineno < pr[0].lineno:
            ok = True
    chk.check('C02.R6', 'strategy_hierarchical.reduce',
              'collect_information before every sweep', ok,
              'the information tables are not rebuilt inside the sweep loop '
              'before the Producer of the sweep is created: after an '
              'accepted simplification the filters see the previous input',
              loc=m.loc(f), nontrivial=True)


def rule_r17(chk, prog):
    chk.rule('C02.R17', 'the passes run in the order get_passes() lists '
             'them, the complete pass last: get_pass(passes, i) hands out '
             'element i (the index it is given, unmodified), and reduce() '
             'asks for i = 0 .. len(passes) - 1 in that order')
    m = prog.mod('strategy_hierarchical')
    f = m.func('get_pass')
    ps = params_of(f)
    n = 0
    for x in ast.walk(f):
        if isinstance(x, ast.Subscript) and isinstance(
                x.value, ast.Name) and x.value.id == ps[0]:
            n += 1
            ok = isinstance(x.slice, ast.Name) and x.slice.id == ps[1]
            chk.check('C02.R17', 'strategy_hierarchical.get_pass', x, ok,
                      f'"{unparse(x)}" is not "{ps[0]}[{ps[1]}]": the '
                      'passes are handed out in another order (with an '
                      'offset of -1 the complete last pass runs first and '
                      'the sweep that ends the run lacks the late '
                      'mutators) - the final sweep is not a sweep of every '
                      'enabled mutator', loc=m.loc(x), nontrivial=True)
    chk.floor('C02.R17', 'subscripts of the pass list in get_pass', n, 1)
    m.func('reduce')  # anchor
    nl = 0
    loops_ = [lp for q_, r in m.funcs.items() if '<locals>' not in q_
              for lp in walk_no_nested(r)]
    for lp in loops_:
        if isinstance(lp, ast.For) and any(
                isinstance(c, ast.Call) and (call_name(c) or '') ==
                'get_pass' for c in ast.walk(lp)):
            calls = [c for c in ast.walk(lp) if isinstance(c, ast.Call)
                     and (call_name(c) or '') == 'get_pass']
            inner = [l2 for l2 in ast.walk(lp) if l2 is not lp
                     and isinstance(l2, ast.For) and any(
                         c in list(ast.walk(l2)) for c in calls)]
            if inner:
                continue
            nl += 1
            it = unparse(lp.iter).replace(' ', '')
            tgt = lp.target.id if isinstance(lp.target, ast.Name) else None
            lists = {unparse(c.args[0]) for c in calls if c.args}
            ok = len(lists) == 1 and it in tuple(
                t_.format(list(lists)[0]) for t_ in (
                    'range(len({}))', 'range(0,len({}))')) and \
                all(len(c.args) == 2 and isinstance(c.args[1], ast.Name)
                    and c.args[1].id == tgt for c in calls)
            chk.check('C02.R17', 'strategy_hierarchical.reduce',
                      f'for {unparse(lp.target)} in {unparse(lp.iter)}', ok,
                      'the loop over the passes does not ask get_pass for '
                      'the indices 0 .. len(passes)-1 in order',
                      loc=m.loc(lp), nontrivial=True)
    chk.floor('C02.R17', 'loops over the passes', nl, 1)


def run(tier):
    prog = Program()
    chk = Check(
        PROP, 'other', tier,
        clauses_decided=[
            'last pass complete and unrestricted',
            'a pass is left only after a fresh, complete, unsuccessful '
            'sweep from node 0 with the abort flag clear',
            'discarded results are never mistaken for tested ones',
            'the producer consults all three hooks of all mutators at all '
            'nodes when skip <= 0',
            'sweeps start from identity-distinct inputs',
        ],
        clauses_not_decided=[
            'imap_unordered semantics (every submitted task yields exactly '
            'one result unless the pool dies)',
            'candidates whose check raised are reported as failures (fixed '
            'point modulo raising candidates)',
            'determinism of the command',
            'lowering skip for discarded results is an efficiency measure, '
            'deliberately not demanded',
        ])
    chk.guard(rule_r1, chk, prog)
    chk.guard(rule_r2, chk, prog)
    chk.guard(rule_r4, chk, prog)
    chk.guard(rule_r5, chk, prog)
    chk.guard(rule_r6, chk, prog)
    chk.guard(rule_r12, chk, prog)
    # "every enabled mutator" and "any s-expression of the output": the set
    # of enabled mutators is not changed behind the user's back between the
    # strategies, and the walk that enumerates the candidates' nodes visits
    # every node (shared with C14.R6 and C12.R5)
    from . import c14, c12, options_table
    sub14 = Check('C14', 'proof', tier, [], [])
    chk.guard(c14.rule_r6, sub14, prog, options_table.registry(prog))
    # only writes outside the option actions / detection: how the command
    # line maps to the enabled set is C14's business, not C02's
    Check.restrict(sub14, lambda wh, what: not wh.startswith(
        ('mutators.', 'mutators', 'options', 'argparsemod'))
        or wh.startswith('mutators_'))
    chk.adopt('C02.R7', 'mutator toggles are written only by the option '
              'actions and by automatic theory detection: a strategy that '
              'switches a mutator off leaves the following strategy without '
              'it (shared with C14.R6)', sub14)
    sub12 = Check('C12', 'other', tier, [], [])
    chk.guard(c12.rule_r5, sub12, prog)
    chk.guard(c12.rule_r5_depth, sub12, prog)
    # completeness of the walk, not its order
    Check.restrict(sub12, lambda wh, what: '[order]' not in what
                   and 'reversed' not in what
                   and wh.startswith(('nodes.dfs', 'nodes.bfs')))
    chk.adopt('C02.R8', 'the traversals that enumerate the nodes offered to '
              'the mutators visit every node exactly once (shared with '
              'C12.R5)', sub12)
    from .. import genreuse
    chk.guard(genreuse.rule, chk, prog, 'C02.R9',
              'the proposals of a mutator and the nodes of a sweep are not '
              'held in a one-shot iterator that is traversed twice on one '
              'path', {'strategy_hierarchical': None, 'mutator_utils': None},
              'the sweep that follows sees no nodes / no proposals and '
              'declares a fixed point')
    from . import c04 as _c04
    sub04 = Check('C04', 'other', tier, [], [])
    _cg, _zone, _via = _c04.compute_zone(prog)
    chk.guard(_c04.rule_r1, sub04, prog, _cg, _zone)
    Check.restrict(sub04, lambda wh, what: 'loop over' in what
                   or 'continues with the next mutator' in what)
    chk.adopt('C02.R10', 'a failure of one mutator costs only its own candidates: the loop over the mutators (and over the nodes) goes on, so the sweep that declares the fixed point has really asked every mutator at every node (shared with the per-mutator part of C04.R1)', sub04)
    # the candidates reach the workers intact: a leaf that does not survive
    # pickling makes every check of the input fail in the worker, which the
    # consumer reports as "rejected" - a fixed point that was never tested
    # (shared with the text-carrying part of C12.R1)
    sub12b = Check('C12', 'other', tier, [], [])
    chk.guard(c12.rule_r1, sub12b, prog)
    Check.restrict(sub12b, lambda wh, what: not any(
        k in what for k in ('hash width', '(id, hash) restored',
                            'slots restored', "b'(': fields")))
    chk.adopt('C02.R11', 'inputs cross the process boundary intact (tags, '
              'leaf records, cursor of the pickle format; shared with '
              'C12.R1)', sub12b)
    from .. import depthrec
    chk.guard(depthrec.report, chk, prog, 'C02.R13',
              'no function of the tree core that enumerates or applies candidates recurses over the nesting depth (directly, through helpers, generators, tuple comparison, deepcopy or the generic pickler)',
              [('nodes', 'substitute'), ('nodes', 'dfs'), ('nodes', 'bfs'), ('nodes', 'reduplicate'), ('nodes', 'count_nodes'), ('nodes', 'Node.__eq__'), ('nodes', 'Node.__getstate__'), ('nodes', 'Node.__setstate__')],
              'a check that raises in the worker is reported as "rejected": candidates in deep terms are never really tested, and the sweep that ends the pass declares a fixed point')
    from .. import mutstate
    chk.guard(mutstate.report, chk, prog, 'C02.R14',
              'mutators keep no state from one call to the next: their '
              'protocol methods store nothing on the object, the class or '
              'module-level containers except option values and constants',
              'proposals are generated from what an earlier input looked like: candidates that exist for the current input are never offered, and the final sweep declares a fixed point')
    # the tree in memory is the tree a reader gets from the written file:
    # a leaf whose text is several tokens hides structure from every mutator
    from . import c15 as _c15
    from ..shape import Summaries as _Summ
    sub15 = Check('C15', 'other', tier, [], [])
    chk.guard(_c15.rule_r3, sub15, prog, _c15.Abs(prog, _Summ(prog)))
    chk.adopt('C02.R15', 'every leaf a mutator builds is a single token, so '
              'the final sweep visits the same nodes a rerun on the written '
              'output visits: text of several tokens inside one leaf is '
              'opaque to all mutators now and is taken apart by the rerun '
              '(shared with C15.R3)', sub15)
    from .. import memo as _memo

    def _memo_rule(chk, prog):
        chk.rule('C02.R16', 'memoised functions of the mutator registry and the pass builders: the cached value depends only on the cache key and is not an object shared between passes')
        _memo.report(chk, prog, 'C02.R16', 'memoised functions of the registry / pass builders',
                     lambda m, q: m.name in ('mutators', 'strategy_hierarchical', 'mutator_utils'),
                     'the instance a pass restricted to one kind of command (get_initialized_mutator) is the instance of every later pass: the final sweep does not offer the proposals of the unrestricted mutator')

    chk.guard(_memo_rule, chk, prog)
    chk.guard(rule_r17, chk, prog)
    # identities are unique, also in long runs and big inputs (shared with
    # C12.R4 / C12.R11)
    from . import c12 as _c12
    sub12 = Check('C12', 'other', tier, [], [])
    chk.guard(_c12.rule_r4, sub12, prog)
    chk.guard(_c12.rule_r11, sub12, prog)
    chk.adopt('C02.R18', 'a proposal reaches the node it was made for: ids '
              'come from one shared counter of the width the pickle format '
              'carries, never 0, never handed out twice (shared with '
              'C12.R4 and C12.R11)', sub12)
    extra = None
    if tier == 'thorough':
        from .. import selftest
        extra = selftest.run_for(PROP)
    return chk.finish(extra)
