"""C15 - every proposed simplification is applicable and lexically closed.

Abstract interpretation of the Simplification(...) construction sites and
the Node(...) constructions of the mutator modules: replacement types, key
provenance, leaf-text provenance, freshness guards, filter/assert
agreement.  Well-sortedness of the result is not decided."""
import ast
import re

from ..astutil import (call_name, calls_in, walk_no_nested, params_of, kw,
                       is_const, single_defs, subst, expand_locals)
from ..cfg import cfg_of, expr_owner_node, facts_at, decompose, fact_key
from ..loader import Program, AnalysisError, unparse
from ..report import Check
from ..shape import Summaries, parse_expr

PROP = 'C15'

SAFE = set('abcdefghijklmnopqrstuvwxyzABCDEFGHIJKLMNOPQRSTUVWXYZ0123456789'
           '~!@$%^&*_-+=<>.?/#:')


def single_token(s):
    """Reference lexer (SMT-LIB 2.6 section 3.1): is s exactly one token?"""
    if s == '':
        return False
    if s[0] == '"':
        if len(s) < 2 or s[-1] != '"':
            return False
        inner = s[1:-1].replace('""', '')
        return '"' not in inner
    if s[0] == '|':
        return len(s) >= 2 and s[-1] == '|' and '|' not in s[1:-1]
    if s[0] == ';':
        return '\n' not in s[:-1]
    return all(c in SAFE for c in s)


def _fn(node):
    n = getattr(node, '_parent', None)
    while n is not None:
        if isinstance(n, ast.FunctionDef):
            return n
        n = getattr(n, '_parent', None)
    return None


NODE_FUNCS = {'get_piped_symbol', 'get_defined_fun', 'get_sort',
              'nodes.substitute', 'Node', 'nodes.Node'}
MAYBE_NONE = {'make_and', 'derive_symbol'}
INT_FUNCS = {'int', 'len', 'get_bv_width', 'abs', 'min', 'max', 'sum'}


from ..cfg import none_def_reaches as _none_def_reaches


class Abs:
    """Abstract evaluation of replacement values and leaf texts."""

    def __init__(self, prog, summ):
        self.prog = prog
        self.summ = summ

    def facts(self, m, f, node):
        """Must-facts at ``node`` + what the same class's filter
        establishes about the node parameter (mutations are only called on
        nodes the filter accepted) + predicate summaries."""
        if f is None:
            return set()
        fs = set(facts_at(f, node))
        # the branch conditions of the world under evaluation
        w = self.__dict__.get('_world')
        if w:
            from ..cfg import decompose, fact_key
            for x in ast.walk(f):
                if isinstance(x, ast.If) and id(x) in w:
                    for (t_, p_) in decompose(x.test, w[id(x)] == 'body'):
                        fs.add(fact_key(t_, p_))
        cd = getattr(f, '_class', None)
        via_helper = False
        if cd is not None and f.name not in ('mutations', 'global_mutations',
                                             'filter') and len(
                                                 params_of(f)) > 1:
            # a private helper of the class that is only ever called with
            # the node the protocol method received
            sites = []
            for mn in ('mutations', 'global_mutations'):
                cf = m.funcs.get(f'{cd.name}.{mn}')
                if cf is None:
                    continue
                for c_ in ast.walk(cf):
                    if isinstance(c_, ast.Call) and isinstance(
                            c_.func, ast.Attribute) and \
                            c_.func.attr == f.name and isinstance(
                                c_.func.value, ast.Name) and \
                            c_.func.value.id == 'self':
                        sites.append((cf, c_))
            via_helper = bool(sites) and all(
                c_.args and isinstance(c_.args[0], ast.Name)
                and len(params_of(cf)) > 1
                and c_.args[0].id == params_of(cf)[1]
                for (cf, c_) in sites)
        if cd is not None and (f.name in ('mutations', 'global_mutations')
                               or via_helper):
            fq = f'{cd.name}.filter'
            if fq in m.funcs:
                filt = m.funcs[fq]
                ff = self.summ.true_facts(m, filt)
                fp, mp = params_of(filt), params_of(f)
                if len(fp) > 1 and len(mp) > 1 and fp[1] != mp[1]:
                    ren = {fp[1]: ast.Name(id=mp[1], ctx=ast.Load())}
                    ff = {(unparse(subst(parse_expr(x), ren)), p)
                          for (x, p) in ff if parse_expr(x) is not None}
                fs |= set(ff)
        return self.summ.expand(m, fs)

    # kinds: ('node',) ('none',) ('int',) ('pytuple',) ('list', elemkind)
    #        ('text', cls, nonempty)  cls in TOK FRAG ESC INNER BITS
    #        ('bad', why) ('unknown', why)
    def _correlated_ifs(self, f):
        """If statements of f whose two branches both (re)define a common
        name (local, nested function): the definitions are correlated - a
        value built in one branch is consumed by the helper defined in the
        same branch."""
        key = id(f)
        cache = self.__dict__.setdefault('_corr', {})
        if key in cache:
            return cache[key]

        def defs(block):
            out = set()
            for st in block:
                for x in ast.walk(st):
                    if isinstance(x, ast.FunctionDef):
                        out.add(x.name)
                    elif isinstance(x, ast.Assign):
                        for t in x.targets:
                            if isinstance(t, ast.Name):
                                out.add(t.id)
            return out

        res = []
        shadow = self.__dict__.setdefault('_shadow', {})
        for x in ast.walk(f):
            if isinstance(x, ast.If) and x.orelse:
                common = defs(x.body) & defs(x.orelse)
                if len(common) >= 2:
                    res.append(x)
            elif isinstance(x, ast.If) and not x.orelse:
                # "a = d1; b = d2; if c: a = ...; b = ..." - the branch
                # overrides defaults set before it: in the world where the
                # branch is taken the defaults are shadowed
                inb = defs(x.body)
                par = getattr(x, '_parent', None)
                blk = None
                for fld in ('body', 'orelse', 'finalbody'):
                    b_ = getattr(par, fld, None)
                    if isinstance(b_, list) and x in b_:
                        blk = b_
                if blk is None:
                    continue
                before = blk[:blk.index(x)]
                sh = [st for st in before if isinstance(st, ast.Assign)
                      and any(isinstance(t, ast.Name) and t.id in inb
                              for t in st.targets)]
                names = {t.id for st in sh for t in st.targets
                         if isinstance(t, ast.Name)}
                if len(names) >= 2:
                    res.append(x)
                    shadow[id(x)] = sh
        cache[key] = res[:3]
        return cache[key]

    def _excluded(self, node):
        """node lies in the branch not chosen by the current world"""
        w = self.__dict__.get('_world')
        if not w:
            return False
        # defaults shadowed by a taken else-less branch
        for iid, sh in self.__dict__.get('_shadow', {}).items():
            if w.get(iid) == 'body' and any(node is st for st in sh):
                return True
        cur = node
        par = getattr(cur, '_parent', None)
        while par is not None:
            if id(par) in w and isinstance(par, ast.If):
                chosen = w[id(par)]
                blk = par.body if chosen == 'orelse' else par.orelse
                if any(cur is b for b in blk):
                    return True
            cur = par
            par = getattr(par, '_parent', None)
        return False

    def kind(self, e, m, f, env=None, depth=0):
        if depth == 0 and f is not None and not self.__dict__.get(
                '_world') and isinstance(f, ast.FunctionDef):
            ifs = self._correlated_ifs(f)
            if ifs:
                import itertools
                acc = None
                try:
                    for choice in itertools.product(('body', 'orelse'),
                                                    repeat=len(ifs)):
                        self._world = {id(i_): c_
                                       for i_, c_ in zip(ifs, choice)}
                        if self._excluded(e):
                            continue
                        self.__dict__.pop('_busy', None)
                        k = self.kind(e, m, f, env, 1)
                        if k[0] == 'bad':
                            return k
                        if acc is not None and acc[0] == 'text' and \
                                k[0] == 'text' and acc[1] != k[1] and all(
                                    x[1] in ('TOK', 'VERB') or (
                                        x[1] in ('FRAG', 'BITS') and x[2])
                                    for x in (acc, k)):
                            # each world yields a single token of its own
                            # class: a token in every world
                            acc = ('text', 'TOK', True, None)
                            continue
                        acc = k if acc is None else self.join(acc, k)
                finally:
                    self._world = None
                if acc is not None:
                    return acc
        return self._kind(e, m, f, env, depth)

    def _kind(self, e, m, f, env=None, depth=0):
        env = env or {}
        if depth > 14:
            return ('unknown', 'depth')
        if isinstance(e, ast.Constant):
            if e.value is None:
                return ('none', )
            if isinstance(e.value, bool):
                return ('int', )
            if isinstance(e.value, int):
                return ('int', )
            if isinstance(e.value, str):
                if single_token(e.value):
                    frag = all(c in SAFE for c in e.value)
                    return ('text', 'FRAG' if frag else 'TOK', True,
                            e.value)
                if all(c in SAFE for c in e.value):
                    return ('text', 'FRAG', False, e.value)
                return ('text', 'RAW', bool(e.value), e.value)
            return ('unknown', f'constant {e.value!r}')
        if isinstance(e, ast.Name):
            if e.id in env:
                return env[e.id]
            k = self.name_kind(e, m, f, env, depth)
            if k[0] == 'text' and len(k) > 2 and not k[2] and f is not None:
                # a dominating emptiness test makes the text non-empty
                fs = facts_at(f, e)
                if (f"{e.id} != ''", True) in fs or (
                        f"{e.id} == ''", False) in fs or (e.id, True) in fs:
                    k = (k[0], k[1], True) + tuple(k[3:])
            return k
        if isinstance(e, ast.Tuple):
            ks = [self.kind(x, m, f, env, depth + 1) for x in e.elts]
            for k in ks:
                if k[0] in ('bad', 'unknown'):
                    return k
            return ('pytuple', ks)
        if isinstance(e, ast.Starred):
            return ('node', )
        if isinstance(e, ast.IfExp):
            a = self.kind(e.body, m, f, env, depth + 1)
            b = self.kind(e.orelse, m, f, env, depth + 1)
            return self.join(a, b)
        if isinstance(e, ast.Subscript) and isinstance(
                e.value, ast.Attribute) and e.value.attr == 'substs':
            # simp.substs[node.id] for simp in self.mutations(node): the
            # value kinds of the same class's mutations()
            cd = getattr(f, '_class', None) if f is not None else None
            mq = f'{cd.name}.mutations' if cd is not None else None
            if mq in m.funcs:
                mf = m.funcs[mq]
                acc = None
                for c in ast.walk(mf):
                    if isinstance(c, ast.Call) and call_name(
                            c) == 'Simplification' and c.args and isinstance(
                                c.args[0], ast.Dict):
                        for v in c.args[0].values:
                            k = self.kind(v, m, mf, {}, depth + 1)
                            acc = k if acc is None else self.join(acc, k)
                if acc is not None:
                    return acc
            return ('unknown', f'{unparse(e)}: mutations() of the class not '
                    'found')
        if isinstance(e, ast.Subscript):
            base = self.kind(e.value, m, f, env, depth + 1)
            if base[0] == 'skip':
                return base
            if isinstance(e.slice, ast.Slice):
                if base[0] == 'node':
                    # node[a:b] -> tuple of nodes ; leaf[a:b] -> text
                    x = unparse(e.value)
                    leaf = any(pol and t in (f'{x}.is_leaf()',
                                             f'is_piped_symbol({x})',
                                             f'is_string_const({x})')
                               for (t, pol) in self.facts(m, f, e))
                    if leaf:
                        return self.slice_text(
                            ('text', 'VERB', True, None, x), e, m, f, x)
                    return ('pytuple', [('node', )])
                if base[0] == 'text':
                    return self.slice_text(base, e, m, f, unparse(e.value))
                if base[0] in ('list', 'pytuple'):
                    return base
                return ('unknown', f'slice of {base}')
            if base[0] == 'node':
                return ('node', )
            if base[0] == 'list':
                return base[1]
            if base[0] == 'pytuple':
                ks = base[1]
                return ks[0] if ks else ('unknown', 'empty tuple')
            if base[0] == 'dictconst':
                return base[1]
            if base[0] == 'text':
                return ('text', base[1], False, None)
            return ('unknown', f'subscript of {base}')
        if isinstance(e, ast.Attribute):
            if e.attr == 'data':
                x = unparse(e.value)
                bk = self.kind(e.value, m, f, env, depth + 1)
                if bk[0] == 'node' and len(bk) > 1:
                    # a leaf whose text class is known
                    return ('text', bk[1], True, None)
                fs = self.facts(m, f, e)
                if (f'is_piped_symbol({x})', False) in fs and (
                        f'is_const({x})', False) in fs:
                    # a plain symbol: token-safe characters, non-empty
                    return ('text', 'FRAG', True, None)
                if any(pol and t in (f'is_arith_const({x})',
                                     f'is_int_const({x})')
                       for (t, pol) in fs) and not any(
                           pol and t == f'{x}.has_ident()'
                           for (t, pol) in fs):
                    return ('text', 'NUMTXT', True, None, x)
                if (f'is_piped_symbol({x})', False) in fs:
                    # remembered with the text: the owner is known here (in
                    # the caller) not to be a quoted symbol, also when the
                    # text travels on as a plain string argument
                    return ('text', 'VERB', True, None, x, 'notpiped')
                return ('text', 'VERB', True, None, x)
            if e.attr == 'id':
                bk = self.kind(e.value, m, f, env, depth + 1)
                # the identity of a node of the input is a valid key
                return ('nodeid', ) if bk[0] == 'node' else ('int', )
            if isinstance(e.value, ast.Name) and e.value.id == 'self':
                # class constant (e.g. BVTransformToBool.repl)
                cd = getattr(f, '_class', None)
                if cd is not None:
                    for st in cd.body:
                        if isinstance(st, ast.Assign) and unparse(
                                st.targets[0]) == e.attr:
                            return self.kind(st.value, m, None, {},
                                             depth + 1)
            return ('unknown', f'attribute {unparse(e)}')
        if isinstance(e, ast.Dict):
            vals = [self.kind(v, m, f, env, depth + 1) for v in e.values]
            acc = None
            for v in vals:
                acc = v if acc is None else self.join(acc, v)
            return ('dictconst', acc or ('unknown', 'empty dict'))
        if isinstance(e, (ast.List, ast.ListComp, ast.GeneratorExp)):
            if isinstance(e, ast.List):
                acc = None
                for x in e.elts:
                    k = self.kind(x, m, f, env, depth + 1)
                    acc = k if acc is None else self.join(acc, k)
                return ('list', acc or ('node', ))
            env2 = dict(env)
            for g in e.generators:
                it = self.kind(g.iter, m, f, env2, depth + 1)
                if it[0] == 'skip':
                    return it
                ek = self.elem_of(it)
                if isinstance(g.target, ast.Name):
                    env2[g.target.id] = ek
            return ('list', self.kind(e.elt, m, f, env2, depth + 1))
        if isinstance(e, ast.JoinedStr):
            parts = []
            for p in e.values:
                if isinstance(p, ast.Constant):
                    parts.append(('const', str(p.value)))
                else:
                    if p.format_spec is not None:
                        parts.append(('k', ('unknown', 'format spec')))
                    else:
                        parts.append(('k', self.kind(p.value, m, f, env,
                                                     depth + 1)))
            return self.concat(parts, e, m, f)
        if isinstance(e, ast.BinOp):
            if isinstance(e.op, ast.Add):
                a = self.kind(e.left, m, f, env, depth + 1)
                b = self.kind(e.right, m, f, env, depth + 1)
                if a[0] == 'int' and b[0] == 'int':
                    return ('int', )
                if a[0] in ('pytuple', 'node') and b[0] in ('pytuple',
                                                            'node') and (
                        a[0] == 'pytuple' or b[0] == 'pytuple'):
                    return ('pytuple', [('node', )])
                if a[0] in ('text', 'bad') or b[0] in ('text', 'bad'):
                    ops = []

                    def flat(x):
                        if isinstance(x, ast.BinOp) and isinstance(
                                x.op, ast.Add):
                            flat(x.left)
                            flat(x.right)
                        else:
                            ops.append(x)

                    flat(e)
                    parts = []
                    for x in ops:
                        if isinstance(x, ast.Constant) and isinstance(
                                x.value, str):
                            parts.append(('const', x.value))
                        else:
                            parts.append(('k', self.kind(x, m, f, env,
                                                         depth + 1)))
                    return self.concat(parts, e, m, f)
                return ('unknown', f'{a} + {b}')
            a = self.kind(e.left, m, f, env, depth + 1)
            b = self.kind(e.right, m, f, env, depth + 1)
            if a[0] == 'int' and b[0] == 'int':
                return ('int', )
            if a[0] in ('int', 'node', 'node-or-int') and b[0] in (
                    'int', 'node', 'node-or-int'):
                # arithmetic: a number (on a Node it raises, no leaf results)
                return ('int', )
            if isinstance(e.op, ast.Mult) and a[0] == 'text' and \
                    b[0] == 'int':
                return ('text', a[1], False, None)
            return ('unknown', f'binop {unparse(e)[:40]}')
        if isinstance(e, ast.Call):
            return self.call_kind(e, m, f, env, depth)
        return ('unknown', f'{type(e).__name__} {unparse(e)[:40]}')

    def join(self, a, b):
        if a == b:
            return a
        if a[0] == 'skip':
            return b
        if b[0] == 'skip':
            return a
        for x in (a, b):
            if x[0] in ('bad', 'unknown'):
                return x
        if {a[0], b[0]} == {'node', 'none'}:
            return ('node|none', )
        if a[0] == 'node|none' and b[0] in ('node', 'none'):
            return a
        if b[0] == 'node|none' and a[0] in ('node', 'none'):
            return b
        if {a[0], b[0]} == {'text', 'none'}:
            t = a if a[0] == 'text' else b
            return ('text?', t)
        if a[0] == 'text?' and b[0] in ('none', 'text'):
            return a if b[0] == 'none' else ('text?', self.join(a[1], b))
        if b[0] == 'text?' and a[0] in ('none', 'text'):
            return b if a[0] == 'none' else ('text?', self.join(b[1], a))
        if a[0] == 'text' and b[0] == 'text':
            order = ['BITS', 'FRAG', 'TOK', 'VERB', 'INNER', 'ESC', 'RAW']
            ca, cb = a[1], b[1]
            if ca == cb:
                return ('text', ca, a[2] and b[2], None)
            if {ca, cb} <= {'BITS', 'FRAG'}:
                return ('text', 'FRAG', a[2] and b[2], None)
            if {ca, cb} <= {'BITS', 'FRAG', 'TOK', 'VERB'} and a[2] and b[2]:
                # each is a single non-empty token
                return ('text', 'TOK', True, None)
            return ('text', 'MIX', a[2] and b[2], None)
        if a[0] == 'int' and b[0] == 'int':
            return a
        if {a[0], b[0]} <= {'int', 'nodeid'}:
            return ('int', )
        if {a[0], b[0]} <= {'int', 'node', 'node-or-int'}:
            return ('node-or-int', )
        if a[0] == 'list' and b[0] == 'list':
            return ('list', self.join(a[1], b[1]))
        if a[0] == 'pytuple' and b[0] == 'pytuple' and len(a[1]) == len(
                b[1]):
            return ('pytuple', [self.join(x, y) for x, y in zip(a[1], b[1])])
        # the empty tuple iterates over nothing
        for x, y in ((a, b), (b, a)):
            if x[0] == 'pytuple' and not x[1] and y[0] in (
                    'node', 'nodes', 'pytuple', 'list'):
                return ('nodes', ) if y[0] == 'node' else y
        # a node or a Python list of nodes: both iterate over nodes
        for x, y in ((a, b), (b, a)):
            if x[0] == 'list' and x[1] == ('node', ) and y[0] in (
                    'node', 'nodes'):
                return ('nodes', )
            if x[0] == 'pytuple' and x[1] and all(
                    z == ('node', ) for z in x[1]) and y[0] in ('node',
                                                                 'nodes'):
                return ('nodes', )
            if x[0] == 'nodes' and y[0] in ('node', 'nodes'):
                return ('nodes', )
        return ('unknown', f'join of {a[0]} and {b[0]}')

    def elem_of(self, k):
        if k[0] == 'skip':
            return k
        if k[0] == 'list':
            return k[1]
        if k[0] == 'pytuple':
            acc = None
            for x in k[1]:
                acc = x if acc is None else self.join(acc, x)
            return acc or ('node', )
        if k[0] in ('node', 'nodes'):
            return ('node', )
        if k[0] == 'dictconst':
            return ('text', 'FRAG', True, None)
        if k[0] == 'text':
            return ('text', k[1], False, None)
        return ('unknown', f'elements of {k[0]}')

    def slice_text(self, base, e, m, f, x):
        cls = base[1]
        # slices keep the character class; non-emptiness needs a guard
        ne = False
        if f is not None:
            facts = self.facts(m, f, e)
            for (t, pol) in facts:
                if pol and t.startswith(f'len({x}) > '):
                    try:
                        if int(t.split('>')[1]) >= 1:
                            ne = True
                    except ValueError:
                        pass
        if cls == 'VERB':
            # text of an existing leaf: what class are its characters?
            owner = base[4] if len(base) > 4 else None
            facts = self.facts(m, f, e)
            piped = owner and (f'is_piped_symbol({owner})', True) in facts
            strc = owner and (f'is_string_const({owner})', True) in facts
            sl = unparse(e.slice)
            if piped and sl == '1:-1':
                return ('text', 'INNER', False, None)
            if strc and sl == '1:-1':
                return ('text', 'STRBODY', False, None)
            notp = (owner and (f'is_piped_symbol({owner})', False) in facts
                    ) or (len(base) > 5 and base[5] == 'notpiped')
            if notp:
                return ('text', 'FRAG', ne, None)
            return ('text', 'VERBSLICE', ne, None, owner)
        if cls == 'NUMTXT':
            # digits and '.': any slice is token-safe; a numeral with a
            # fractional part has at least three characters
            fs = self.facts(m, f, e) if f is not None else set()
            frac = any(t.startswith('int(') and ' == ' in t and not pol
                       for (t, pol) in fs)
            return ('text', 'FRAG', ne or frac, None)
        if cls in ('BITS', 'FRAG'):
            return ('text', cls, ne, None)
        if cls == 'INNER':
            return ('text', 'INNER', ne, None)
        if cls == 'STRBODY':
            return ('text', 'STRBODY', ne, None)
        if cls == 'UNESC':
            return ('text', 'UNESC', ne, None)
        return ('text', 'SLICE-' + cls, ne, None)

    def concat(self, parts, e, m, f):
        """parts: ('const', s) | ('k', kind)"""
        flat = []
        for p in parts:
            if p[0] != 'const' and p[1][0] == 'text' and len(
                    p[1]) > 3 and isinstance(p[1][3], str):
                # a name bound to a constant string (quote = '|')
                p = ('const', p[1][3])
            if p[0] == 'const':
                flat.append(p)
            else:
                k = p[1]
                if k[0] == 'skip':
                    continue
                if k[0] in ('bad', 'unknown'):
                    return k
                if k[0] in ('int', 'nodeid'):
                    flat.append(('cls', 'FRAG', True))
                elif k[0] == 'text':
                    flat.append(('cls', k[1], k[2]) + ((k[4], ) if len(
                        k) > 4 else ()))
                elif k[0] == 'node':
                    # interpolating a node: its text if it is a leaf
                    return ('bad', 'a node is interpolated into leaf text: '
                            'for a non-leaf node the text "(...)" with '
                            'spaces and parentheses becomes one leaf')
                else:
                    return ('unknown', f'concat part {k[0]}')
        consts = ''.join(p[1] for p in flat if p[0] == 'const')
        clss = [p for p in flat if p[0] == 'cls']
        first = flat[0] if flat else None
        last = flat[-1] if flat else None
        # "..." with ESC body
        if first and last and first[0] == 'const' and last[0] == 'const' \
                and first[1].startswith('"') and last[1].endswith('"') \
                and len(flat) >= 2:
            mid_ok = all((p[0] == 'cls' and p[1] in ('ESC', 'BITS'))
                         or (p[0] == 'const' and '"' not in p[1].strip('"'))
                         for p in flat[1:-1]) and first[1] == '"' and \
                last[1] == '"'
            if mid_ok:
                return ('text', 'TOK', True, None)
            return ('bad', 'string literal built from text whose quotes are '
                    'not escaped: a doubled quote cut in half (or a raw '
                    'quote) leaves the literal unterminated')
        if first and last and first[0] == 'const' and last[0] == 'const' \
                and first[1].startswith('|') and last[1].endswith('|') and \
                len(flat) >= 2:
            ok = all((p[0] == 'cls' and p[1] in ('INNER', 'FRAG', 'BITS'))
                     or (p[0] == 'const' and '|' not in p[1].strip('|'))
                     for p in flat[1:-1]) and '|' not in first[1][1:] and \
                '|' not in last[1][:-1]
            if ok:
                return ('text', 'TOK', True, None)
            return ('bad', 'quoted symbol built around text that may '
                    'contain "|"')
        # plain concatenation of token-safe fragments
        if all(c in SAFE for c in consts) and all(
                p[1] in ('FRAG', 'BITS') for p in clss):
            ne = bool(consts) or any(p[2] for p in clss)
            return ('text', 'FRAG', ne, None, flat)
        if len(flat) == 1 and flat[0][0] == 'cls':
            return ('text', flat[0][1], flat[0][2], None)
        if clss and all(p[1] in ('UNESC', 'ANY', 'STRBODY', 'FRAG', 'BITS',
                                 'INNER', 'VERBSLICE') for p in clss) and \
                any(p[1] in ('UNESC', 'ANY', 'STRBODY') for p in clss):
            return ('text', 'ANY', False, None)
        bad = [p[1] for p in clss if p[1] not in ('FRAG', 'BITS')]
        return ('bad', f'leaf text concatenated from {bad or consts!r}: the '
                'result is not guaranteed to be a single token (the source '
                'may be a quoted symbol, a string literal or contain '
                'delimiters)')

    def name_kind(self, e, m, f, env, depth):
        key = (id(f), e.id)
        busy = self.__dict__.setdefault('_busy', set())
        if key in busy:
            return ('skip', )
        busy.add(key)
        try:
            return self._name_kind(e, m, f, env, depth)
        finally:
            busy.discard(key)

    def _name_kind(self, e, m, f, env, depth):
        name = e.id
        if f is None:
            return ('unknown', f'name {name}')
        ps = params_of(f)
        if name in ps:
            if name in ('node', 'linput', 'symbol', 'n', 'sort'):
                return ('node', )
            if name in ('input_', 'exprs'):
                return ('list', ('node', ))
            return self.param_kind(m, f, name, depth)
        # innermost enclosing comprehension / for loop binding the name
        par = getattr(e, '_parent', None)
        child = e
        while par is not None and par is not f:
            gens = None
            if isinstance(par, (ast.ListComp, ast.GeneratorExp, ast.SetComp,
                                ast.DictComp)):
                gens = par.generators
            if gens:
                for g in gens:
                    if child is g.iter:
                        continue
                    tg = g.target
                    if isinstance(tg, ast.Name) and tg.id == name:
                        return self.elem_of(self.kind(g.iter, m, f, env,
                                                      depth + 1))
                    if isinstance(tg, ast.Tuple):
                        for i, x in enumerate(tg.elts):
                            if isinstance(x, ast.Name) and x.id == name:
                                it = g.iter
                                if isinstance(it, ast.Call) and call_name(
                                        it) == 'enumerate':
                                    return ('int', ) if i == 0 else \
                                        self.elem_of(self.kind(
                                            it.args[0], m, f, env,
                                            depth + 1))
                                if isinstance(it, ast.Call) and call_name(
                                        it) == 'zip':
                                    return self.elem_of(self.kind(
                                        it.args[i], m, f, env, depth + 1))
            if isinstance(par, ast.For) and child is not par.iter:
                tg = par.target
                if isinstance(tg, ast.Name) and tg.id == name:
                    return self.elem_of(self.kind(par.iter, m, f, env,
                                                  depth + 1))
            child = par
            par = getattr(par, '_parent', None)
        defs = []
        # the statement the use sits in, and the else-less branches around it
        use_stmt = e
        while use_stmt is not None and not isinstance(use_stmt, ast.stmt):
            use_stmt = getattr(use_stmt, '_parent', None)
        inside_ifs = set()
        a_ = getattr(use_stmt, '_parent', None)
        in_loop = False
        while a_ is not None and a_ is not f:
            if isinstance(a_, ast.If):
                inside_ifs.add(id(a_))
            if isinstance(a_, (ast.For, ast.While)):
                in_loop = True
            a_ = getattr(a_, '_parent', None)
        shadow = self.__dict__.get('_shadow', {})
        for st in ast.walk(f):
            if self._excluded(st) and not any(
                    iid in inside_ifs and any(st is s_ for s_ in sh)
                    for iid, sh in shadow.items()):
                # (a default shadowed by a branch still reaches the uses
                # inside that branch, before the override)
                continue
            if st is use_stmt and isinstance(st, ast.Assign) and \
                    not in_loop and any(
                        isinstance(t, ast.Name) and t.id == name
                        for t in st.targets):
                # "x = f(x)": the use reads the previous binding
                continue
            if isinstance(st, ast.Assign):
                for t in st.targets:
                    if isinstance(t, ast.Name) and t.id == name:
                        if isinstance(st.value, ast.Constant) and \
                                st.value.value is None and \
                                not _none_def_reaches(f, st, e, name):
                            # "x = None" default that every path to this
                            # use either overwrites or refutes (x is None)
                            continue
                        defs.append(('assign', st.value))
                    elif isinstance(t, ast.Tuple):
                        for i, x in enumerate(t.elts):
                            if isinstance(x, ast.Name) and x.id == name:
                                defs.append(('unpack', st.value, i))
            elif isinstance(st, ast.AugAssign) and isinstance(
                    st.target, ast.Name) and st.target.id == name:
                defs.append(('aug', st.value))
            elif isinstance(st, ast.NamedExpr) and isinstance(
                    st.target, ast.Name) and st.target.id == name:
                defs.append(('assign', st.value))
            elif isinstance(st, (ast.For, ast.comprehension)):
                tg = st.target
                if isinstance(tg, ast.Name) and tg.id == name:
                    defs.append(('iter', st.iter))
                elif isinstance(tg, ast.Tuple):
                    for i, x in enumerate(tg.elts):
                        if isinstance(x, ast.Name) and x.id == name:
                            defs.append(('iter-unpack', st.iter, i))
        if not defs:
            # a free variable of a nested function: bound in the enclosing one
            g = getattr(f, '_parent', None)
            while g is not None and not isinstance(g, ast.FunctionDef):
                g = getattr(g, '_parent', None)
            if g is not None:
                return self._name_kind(e, m, g, env, depth + 1)
            return ('unknown', f'no definition of {name}')
        acc = None
        for d in defs:
            if d[0] == 'assign':
                k = self.kind(d[1], m, f, env, depth + 1)
            elif d[0] == 'aug':
                k = self.kind(d[1], m, f, env, depth + 1)
            elif d[0] == 'iter':
                k = self.elem_of(self.kind(d[1], m, f, env, depth + 1))
            elif d[0] == 'unpack':
                k = self.kind(d[1], m, f, env, depth + 1)
                if k[0] == 'unknown' and isinstance(
                        d[1], ast.Subscript) and isinstance(
                            d[1].value, ast.Name) and len(m.globals.get(
                                d[1].value.id, [])) == 1 and isinstance(
                                    m.globals[d[1].value.id][0], ast.Dict):
                    # a, b = TABLE[key]: join over the rows of the table
                    acc_ = None
                    for row in m.globals[d[1].value.id][0].values:
                        kk = self.kind(row, m, None, {}, depth + 1)
                        acc_ = kk if acc_ is None else self.join(acc_, kk)
                    if acc_ is not None:
                        k = acc_
                if k[0] == 'unknown' and isinstance(
                        d[1], ast.Call) and isinstance(
                            d[1].func, ast.Attribute) and \
                        d[1].func.attr == 'get' and isinstance(
                            d[1].func.value, ast.Name) and len(
                                m.globals.get(d[1].func.value.id,
                                              [])) == 1 and isinstance(
                                    m.globals[d[1].func.value.id][0],
                                    ast.Dict) and len(d[1].args) == 2:
                    # a, b = TABLE.get(key, DEFAULT): rows and the default
                    dfl_ = d[1].args[1]
                    if isinstance(dfl_, ast.Name) and len(m.globals.get(
                            dfl_.id, [])) == 1:
                        acc_ = self.kind(m.globals[dfl_.id][0], m, None, {},
                                         depth + 1)
                    else:
                        acc_ = self.kind(dfl_, m, f, env, depth + 1)
                    for row in m.globals[d[1].func.value.id][0].values:
                        kk = self.kind(row, m, None, {}, depth + 1)
                        acc_ = self.join(acc_, kk)
                    k = acc_
                if k[0] == 'pytuple' and d[2] < len(k[1]):
                    k = k[1][d[2]]
                elif k[0] == 'node':
                    k = ('node', )
                elif k[0] == 'intpair':
                    k = ('int', )
                else:
                    k = ('unknown', f'unpack of {k[0]}')
            else:  # iter-unpack: enumerate / items
                it = d[1]
                if isinstance(it, ast.Call) and call_name(
                        it) == 'enumerate':
                    k = ('int', ) if d[2] == 0 else self.elem_of(
                        self.kind(it.args[0], m, f, env, depth + 1))
                else:
                    k = None
                    # for key, value in <dict literal>.items()
                    if isinstance(it, ast.Call) and isinstance(
                            it.func, ast.Attribute) and \
                            it.func.attr == 'items' and not it.args:
                        dv = it.func.value
                        dl = None
                        if isinstance(dv, ast.Dict):
                            dl = dv
                        elif isinstance(dv, ast.Name):
                            cands_ = [st.value for st in ast.walk(f)
                                      if isinstance(st, ast.Assign)
                                      and any(isinstance(t, ast.Name)
                                              and t.id == dv.id
                                              for t in st.targets)]
                            if not cands_ and len(m.globals.get(
                                    dv.id, [])) == 1:
                                cands_ = m.globals[dv.id]
                            if len(cands_) == 1 and isinstance(cands_[0],
                                                               ast.Dict):
                                dl = cands_[0]
                        if dl is not None and d[2] in (0, 1):
                            for x_ in (dl.keys if d[2] == 0 else dl.values):
                                kk = self.kind(x_, m, f, env, depth + 1)
                                k = kk if k is None else self.join(k, kk)
                    try:
                        from ..astutil import module_const
                        tabv = module_const(m, it) if k is None else None
                    except ValueError:
                        tabv = None
                    if isinstance(tabv, (tuple, list)) and tabv and all(
                            isinstance(r_, (tuple, list))
                            and len(r_) > d[2] for r_ in tabv):
                        for r_ in tabv:
                            kk = self.kind(ast.Constant(value=r_[d[2]]), m,
                                           f, env, depth + 1)
                            k = kk if k is None else self.join(k, kk)
                    if k is None:
                        k = ('unknown',
                             f'iteration unpack {unparse(it)[:30]}')
            acc = k if acc is None else self.join(acc, k)
        return acc

    def param_kind(self, m, f, name, depth):
        """Kind of a helper's parameter: join over the arguments at its
        resolved call sites (and its default); arbitrary text if it has no
        caller."""
        ps = params_of(f)
        cls = getattr(f, '_class', None)
        acc = None
        dfl = f.args.defaults
        idx = ps.index(name)
        di = idx - (len(ps) - len(dfl))
        if 0 <= di < len(dfl):
            acc = self.kind(dfl[di], m, None, {}, depth + 1)
        encl = getattr(f, '_parent', None)
        while encl is not None and not isinstance(encl, ast.FunctionDef):
            encl = getattr(encl, '_parent', None)
        if encl is not None:
            # a nested function: called by name inside the enclosing one
            for c in ast.walk(encl):
                if isinstance(c, ast.Call) and isinstance(
                        c.func, ast.Name) and c.func.id == f.name:
                    arg = None
                    if ps.index(name) < len(c.args):
                        arg = c.args[ps.index(name)]
                    for k_ in c.keywords:
                        if k_.arg == name:
                            arg = k_.value
                    if arg is None:
                        continue
                    k = self.kind(arg, m, _fn(c), {}, depth + 1)
                    acc = k if acc is None else self.join(acc, k)
            if acc is not None:
                return acc
        for om in self.prog.pkg_modules():
            for c in ast.walk(om.tree):
                if not isinstance(c, ast.Call):
                    continue
                hit = False
                skip_self = False
                if cls is not None and isinstance(
                        c.func, ast.Attribute) and isinstance(
                            c.func.value, ast.Name) and \
                        c.func.value.id == 'self' and om is m and \
                        c.func.attr == f.name and getattr(
                            _fn(c), '_class', None) is cls:
                    hit, skip_self = True, True
                elif cls is None and isinstance(c.func, (ast.Name,
                                                         ast.Attribute)):
                    try:
                        r = self.prog.resolve_expr(om, c.func)
                    except Exception:
                        r = None
                    hit = bool(r and r[0] == 'func' and r[1] is m
                               and r[2] == f._qualname)
                if not hit:
                    continue
                cps = ps[1:] if skip_self else ps
                arg = None
                if name in cps and cps.index(name) < len(c.args):
                    arg = c.args[cps.index(name)]
                for k_ in c.keywords:
                    if k_.arg == name:
                        arg = k_.value
                if arg is None:
                    continue
                k = self.kind(arg, om, _fn(c), {}, depth + 1)
                acc = k if acc is None else self.join(acc, k)
        if acc is None:
            return ('text', 'ANY', False, None)
        return acc

    def call_kind(self, e, m, f, env, depth):
        nm = call_name(e) or ''
        if nm in ('Node', 'nodes.Node'):
            return ('node', )
        if nm in ('get_defined_fun', 'get_sort', 'nodes.substitute',
                  'get_ident'):
            return ('node', )
        if nm in MAYBE_NONE:
            return ('node|none', )
        if nm in ('nodes.dfs', 'nodes.bfs', 'dfs', 'bfs',
                  'nodes.filter_nodes'):
            return ('list', ('node', ))
        if nm in ('itertools.chain.from_iterable',
                  'chain.from_iterable') and len(e.args) == 1:
            k = self.kind(e.args[0], m, f, env, depth + 1)
            if k[0] in ('unknown', 'bad', 'skip'):
                return k
            return ('list', self.elem_of(self.elem_of(k)))
        if nm in ('itertools.chain', 'chain') and e.args and not any(
                isinstance(a, ast.Starred) for a in e.args):
            acc = None
            for a in e.args:
                k = self.kind(a, m, f, env, depth + 1)
                if k[0] in ('unknown', 'bad', 'skip'):
                    return k
                k = self.elem_of(k)
                acc = k if acc is None else self.join(acc, k)
            return ('list', acc)
        if nm == 'get_piped_symbol':
            return ('node', 'INNER')
        if nm in ('get_default_constants', 'get_variables_with_sort'):
            if nm == 'get_variables_with_sort':
                return ('list', ('text', 'TOK', True, None))
            return ('list', ('node', ))
        if nm in INT_FUNCS or nm in ('get_indices', ) or nm.startswith(
                'math.'):
            if nm == 'get_indices':
                return ('list', ('int', ))
            return ('int', )
        if nm == 'get_bv_constant_value':
            return ('pytuple', [('int', ), ('int', )])
        if nm == 'get_dt_selector':
            return ('pytuple', [('node', ), ('int', )])
        if nm == 'get_arith_const':
            return ('int', )
        if nm == 'str' and len(e.args) == 1:
            k = self.kind(e.args[0], m, f, env, depth + 1)
            if k[0] in ('int', 'nodeid'):
                return ('text', 'FRAG', True, None)
            if k[0] == 'node':
                x = unparse(e.args[0])
                facts = self.facts(m, f, e)
                if (f'{x}.is_leaf()', True) in facts:
                    return ('text', 'VERB', True, None, x)
                return ('bad', 'str() of a possibly non-leaf node used as '
                        'leaf text')
            return k
        if nm == 'bin':
            return ('text', 'BITS', True, None)
        if nm in ('tuple', 'list', 'sorted', 'reversed', 'filter'):
            if e.args:
                k = self.kind(e.args[-1], m, f, env, depth + 1)
                if k[0] == 'skip':
                    return k
                if k[0] in ('list', 'pytuple', 'node'):
                    if nm == 'tuple':
                        return ('pytuple', [self.elem_of(k)])
                    return ('list', self.elem_of(k))
                return k
        if nm == 'set' and e.args:
            return self.kind(e.args[0], m, f, env, depth + 1)
        if isinstance(e.func, ast.Attribute):
            recv = self.kind(e.func.value, m, f, env, depth + 1)
            a = e.func.attr
            if a in ('get_ident', ):
                return ('node', )
            if recv[0] == 'text':
                if a == 'replace' and len(e.args) == 2 and all(
                        isinstance(x, ast.Constant) for x in e.args):
                    old, new = e.args[0].value, e.args[1].value
                    if (old, new) == ('"', '""'):
                        return ('text', 'ESC', False, None)
                    if (old, new) == ('""', '"') and recv[1] in (
                            'STRBODY', ):
                        return ('text', 'UNESC', False, None)
                    if recv[1] in ('FRAG', 'VERB') and all(
                            c in SAFE for c in new):
                        # characters stay token-safe; may become empty
                        ne = False
                        return ('text', 'VERBMOD' if recv[1]
                                != 'FRAG' else 'FRAG', ne, None)
                    return ('text', 'REPL-' + recv[1], False, None)
                if a == 'replace' and len(e.args) == 2:
                    ks = [self.kind(x, m, f, env, depth + 1) for x in e.args]
                    if recv[1] in ('FRAG', 'VERB') and all(
                            k[0] == 'text' and k[1] in ('FRAG', 'BITS')
                            for k in ks):
                        # token-safe text replaced by token-safe text:
                        # delimiters and quoting are untouched, the result
                        # is one token unless it is empty
                        return ('text', 'FRAG' if recv[1] == 'FRAG'
                                else 'VERBMOD', False, None)
                if a == 'format':
                    ks = [self.kind(x, m, f, env, depth + 1)
                          for x in e.args]
                    if all(k[0] in ('int', 'nodeid') for k in ks):
                        # '#b{:0>8b}'.format(int): template is a constant
                        tmpl = e.func.value
                        return ('text', 'FRAG', True, None)
                    parts = []
                    tv = e.func.value
                    if isinstance(tv, ast.Constant) and isinstance(
                            tv.value, str):
                        import string as _string
                        kws = {k_.arg: self.kind(k_.value, m, f, env,
                                                 depth + 1)
                               for k_ in e.keywords if k_.arg}
                        auto = 0
                        try:
                            fields = list(_string.Formatter().parse(tv.value))
                        except ValueError:
                            return ('unknown', 'malformed format template')
                        for (lit, fname, spec, conv) in fields:
                            if lit:
                                parts.append(('const', lit))
                            if fname is None:
                                continue
                            if fname == '':
                                idx = auto
                                auto += 1
                            elif fname.isdigit():
                                idx = int(fname)
                            else:
                                idx = None
                            if idx is not None:
                                if idx >= len(ks):
                                    return ('unknown', 'format field '
                                            'without argument')
                                parts.append(('k', ks[idx]))
                            elif fname in kws:
                                parts.append(('k', kws[fname]))
                            else:
                                return ('unknown',
                                        f'format field {{{fname}}}')
                        return self.concat(parts, e, m, f)
                    return ('unknown', 'format on non-constant template')
                if a in ('lower', 'upper'):
                    return recv
                if a in ('rjust', 'ljust', 'zfill', 'center') and e.args:
                    # padding with a constant token-safe character keeps the
                    # class (BITS padded with '0'/'1' stay BITS)
                    fill = e.args[1] if len(e.args) > 1 else None
                    fc = fill.value if isinstance(
                        fill, ast.Constant) else ('0' if a == 'zfill'
                                                  else ' ')
                    if recv[1] == 'BITS' and fc in ('0', '1'):
                        return ('text', 'BITS', recv[2], None)
                    if recv[1] in ('BITS', 'FRAG') and isinstance(
                            fc, str) and all(c in SAFE for c in fc):
                        return ('text', 'FRAG', recv[2], None)
                if a in ('startswith', 'endswith', 'isdigit'):
                    return ('int', )
                if a in ('rfind', 'find', 'index', 'count'):
                    return ('int', )
            if recv[0] == 'dictconst' and a in ('get', ):
                return recv[1]
            if recv[0] == 'node' and a in ('is_leaf', 'has_ident'):
                return ('int', )
            # self.__helper(...): one interprocedural step
            if isinstance(e.func.value, ast.Name) and \
                    e.func.value.id == 'self' and f is not None and getattr(
                        f, '_class', None) is not None:
                q = f'{f._class.name}.{a}'
                if q in m.funcs:
                    return self.callee_kind(m, m.funcs[q], e, m, f, env,
                                            depth, skip_self=True)
        # a nested definition (or several, one per branch) of the enclosing
        # function: join over the definitions
        if isinstance(e.func, ast.Name) and f is not None:
            nested = [d for d in ast.walk(f) if isinstance(
                d, ast.FunctionDef) and d is not f and d.name == e.func.id
                and not self._excluded(d)]
            lams = [st.value for st in ast.walk(f)
                    if not self._excluded(st) and
                    isinstance(st, ast.Assign) and isinstance(
                        st.value, ast.Lambda) and any(
                            isinstance(t, ast.Name) and t.id == e.func.id
                            for t in st.targets)]
            if nested or lams:
                acc = None
                for d in nested:
                    k = self.callee_kind(m, d, e, m, f, env, depth,
                                         skip_self=False)
                    acc = k if acc is None else self.join(acc, k)
                for lam in lams:
                    cenv = dict(env or {})
                    for p_, a_ in zip([x.arg for x in lam.args.args],
                                      e.args):
                        cenv[p_] = self.kind(a_, m, f, env, depth + 1)
                    k = self.kind(lam.body, m, f, cenv, depth + 1)
                    acc = k if acc is None else self.join(acc, k)
                return acc
        # module-level helper of the same module / smtlib
        r = None
        if isinstance(e.func, (ast.Name, ast.Attribute)):
            try:
                r = self.prog.resolve_expr(m, e.func)
            except Exception:
                r = None
        if r and r[0] == 'func':
            return self.callee_kind(r[1], r[1].funcs[r[2]], e, m, f, env,
                                    depth, skip_self=False)
        return ('unknown', f'call {unparse(e)[:50]}')

    def callee_kind(self, cm, cf, call, m, f, env, depth, skip_self):
        ps = params_of(cf)
        if skip_self:
            ps = ps[1:]
        cenv = {}
        for p, a in zip(ps, call.args):
            k = self.kind(a, m, f, env, depth + 1)
            if k == ('node', ) and f is not None:
                x = unparse(a)
                # an alias of another name (base = symbol) in this world
                if isinstance(a, ast.Name):
                    al = [st.value for st in ast.walk(f)
                          if isinstance(st, ast.Assign)
                          and not self._excluded(st) and any(
                              isinstance(t, ast.Name) and t.id == a.id
                              for t in st.targets)]
                    if len(al) == 1 and isinstance(al[0], ast.Name):
                        x = al[0].id
                fs = self.facts(m, f, call)
                if (f'is_piped_symbol({x})', False) in fs:
                    k = ('node', 'FRAG')
                elif (f'is_piped_symbol({x})', True) in fs:
                    k = ('node', 'PIPED')
            cenv[p] = k
        for k_ in call.keywords:
            if k_.arg:
                cenv[k_.arg] = self.kind(k_.value, m, f, env, depth + 1)
        dfl = cf.args.defaults
        allps = params_of(cf)
        for i, d in enumerate(dfl):
            pn = allps[len(allps) - len(dfl) + i]
            cenv.setdefault(pn, self.kind(d, cm, None, {}, depth + 1))
        outs = []
        for st in walk_no_nested(cf):
            if isinstance(st, ast.Return) and st.value is not None:
                outs.append(('ret', st.value))
            elif isinstance(st, ast.Yield) and st.value is not None:
                outs.append(('yield', st.value))
            elif isinstance(st, ast.Return) and st.value is None:
                outs.append(('none', None))
        if not outs:
            return ('none', )
        acc = None
        is_gen = any(o[0] == 'yield' for o in outs)
        for o in outs:
            if o[0] == 'none':
                k = ('none', )
                if is_gen:
                    continue
            else:
                k = self.kind(o[1], cm, cf, cenv, depth + 1)
            acc = k if acc is None else self.join(acc, k)
        if is_gen:
            return ('list', acc)
        return acc


# --------------------------------------------------------------------- rules
def emissions(prog):
    res = []
    for m in prog.pkg_modules():
        if not m.name.startswith('mutators_'):
            continue
        for c in ast.walk(m.tree):
            if isinstance(c, ast.Call) and call_name(c) == 'Simplification':
                res.append((m, _fn(c), c))
    return res


def rule_r1_r2(chk, prog, ab):
    chk.rule('C15.R1', 'replacement values are nodes or None (deletion); '
             'declarations are nodes; a helper that may return None is '
             'None-checked before the proposal is emitted')
    chk.rule('C15.R2', 'keys designate nodes of this input: identities '
             '(.id) of the node parameter or of nodes reached from it / from '
             'the input; structural keys are such nodes')
    ems = emissions(prog)
    chk.floor('C15.R1', 'Simplification(...) construction sites', len(ems),
              78)
    for (m, f, c) in ems:
        where = f'{m.name}.{f._qualname}'
        if len(c.args) != 2:
            chk.check('C15.R1', where, c, False, 'Simplification takes '
                      '(substs, fresh_vars)', loc=m.loc(c))
            continue
        substs, fresh = c.args
        pairs = []
        hctx = []  # keys that live in a helper function
        if isinstance(substs, ast.Dict):
            pairs = list(zip(substs.keys, substs.values))
        elif isinstance(substs, ast.DictComp):
            pairs = [(substs.key, substs.value)]
        elif isinstance(substs, ast.Name):
            # dict built by statements
            for st in walk_no_nested(f):
                if isinstance(st, ast.Assign) and isinstance(
                        st.targets[0], ast.Subscript) and unparse(
                            st.targets[0].value) == substs.id:
                    pairs.append((st.targets[0].slice, st.value))
                if isinstance(st, ast.Call) and isinstance(
                        st.func, ast.Attribute) and \
                        st.func.attr == 'update' and unparse(
                            st.func.value) == substs.id:
                    pairs.append((None, None))
            if not pairs:
                # substs = helper(...): the helper builds and returns a dict
                ds = [st.value for st in walk_no_nested(f)
                      if isinstance(st, ast.Assign) and unparse(
                          st.targets[0]) == substs.id]
                if len(ds) == 1 and isinstance(ds[0], ast.Call) and \
                        isinstance(ds[0].func, ast.Name) and \
                        ds[0].func.id in m.funcs:
                    h = m.funcs[ds[0].func.id]
                    hp = params_of(h)
                    henv = dict(zip(hp, ds[0].args))
                    rets = [r.value for r in walk_no_nested(h)
                            if isinstance(r, ast.Return)
                            and isinstance(r.value, ast.Name)]
                    for st in walk_no_nested(h):
                        if rets and isinstance(st, ast.Assign) and \
                                isinstance(st.targets[0], ast.Subscript) \
                                and unparse(st.targets[0].value) == \
                                rets[0].id:
                            k_ = st.targets[0].slice
                            v_ = st.value
                            # a value that is a parameter of the helper is
                            # the caller's argument
                            if isinstance(v_, ast.Name) and v_.id in henv:
                                v_ = henv[v_.id]
                            pairs.append((k_, v_))
                            hctx.append((k_, h))
            if not pairs:
                raise AnalysisError(
                    f'{m.loc(c)}: cannot find how the map "{substs.id}" is '
                    'built')
        elif isinstance(substs, ast.Call) and call_name(substs) in (
                'dict.fromkeys', ) and substs.args:
            # dict.fromkeys(keys[, value]): every key maps to value (None)
            kx = substs.args[0]
            vx = substs.args[1] if len(substs.args) > 1 else ast.Constant(
                value=None)
            # a representative key: an element of the key list
            pairs = [(ast.Subscript(value=kx, slice=ast.Constant(value=0),
                                    ctx=ast.Load()), vx)]
            for x_ in ast.walk(pairs[0][0]):
                x_._parent = getattr(kx, '_parent', None) if x_ is \
                    pairs[0][0] else getattr(x_, '_parent', pairs[0][0])
        else:
            raise AnalysisError(f'{m.loc(c)}: substs is {unparse(substs)}')
        for (k, v) in pairs:
            if k is None:
                continue
            kind = ab.kind(v, m, f)
            facts = facts_at(f, c)
            ok = kind[0] in ('node', 'none')
            msg = ''
            if kind[0] == 'node|none':
                # must be None-checked
                vn = unparse(v)
                ok = (f'{vn} is None', False) in facts
                msg = (f'"{vn}" may be None (no proposal) and is used as a '
                       'replacement without a None test: the node would be '
                       'deleted instead')
            elif kind[0] == 'pytuple':
                msg = (f'the replacement "{unparse(v)[:60]}" is a Python '
                       'tuple, not a Node: substitute() inserts it as it '
                       'is; at top level the writer fails with "tuple has '
                       'no attribute is_leaf"')
            elif kind[0] == 'text':
                msg = (f'the replacement "{unparse(v)[:60]}" is a string, '
                       'not a Node')
            elif kind[0] == 'unknown':
                raise AnalysisError(
                    f'{m.loc(c)}: cannot type replacement '
                    f'"{unparse(v)[:60]}": {kind[1]}')
            elif kind[0] == 'bad':
                msg = kind[1]
            elif not ok:
                msg = f'replacement of kind {kind[0]}'
            chk.check('C15.R1', where, f'{unparse(k)[:30]} -> '
                      f'{unparse(v)[:60]}', ok, msg, loc=m.loc(c),
                      nontrivial=True, argument=f'abstract kind {kind[0]}')
            # keys
            kk = unparse(k)
            okk = False
            kf = f
            for (hk, hf) in hctx:
                if hk is k:
                    kf = hf
            if isinstance(k, ast.Attribute) and k.attr == 'id':
                kb = ab.kind(k.value, m, kf)
                okk = kb[0] == 'node'
            elif isinstance(k, ast.Name):
                kb = ab.kind(k, m, f)
                okk = kb[0] in ('node', 'int', 'nodeid')
                if kb[0] == 'int':
                    # node_id from "[n.id for n in input_]"
                    okk = True
            else:
                kb = ab.kind(k, m, kf)
                okk = kb[0] in ('node', 'nodeid')
            chk.check('C15.R2', where, f'key {kk[:40]}', okk,
                      f'the key "{kk}" is neither the identity of a node of '
                      'this input nor such a node', loc=m.loc(c),
                      nontrivial=True)
        # fresh_vars
        fk = ab.kind(fresh, m, f)
        okf = fk[0] == 'list' and fk[1][0] == 'node' or (
            isinstance(fresh, ast.List) and not fresh.elts)
        if fk[0] == 'unknown':
            raise AnalysisError(f'{m.loc(c)}: cannot type fresh_vars: '
                                f'{fk[1]}')
        chk.check('C15.R1', where, f'fresh_vars {unparse(fresh)[:40]}', okf,
                  'declarations must be a list of nodes', loc=m.loc(c),
                  nontrivial=True)


def rule_r3(chk, prog, ab):
    chk.rule('C15.R3', 'leaf-text provenance: every string that becomes a '
             'leaf is a checked constant, a number, the verbatim text of an '
             'existing leaf, an escaped string body inside quotes, or a '
             'concatenation of token-safe fragments; never empty')
    n = 0
    mods = [m for m in prog.pkg_modules() if m.name.startswith('mutators_')]
    mods.append(prog.mod('smtlib'))
    for m in mods:
        for c in ast.walk(m.tree):
            if not (isinstance(c, ast.Call) and call_name(c) in (
                    'Node', 'nodes.Node')):
                continue
            f = _fn(c)
            if f is None:
                continue
            if (m.name, f._qualname) == ('smtlib', 'get_piped_symbol'):
                # helper: its result is judged where it is emitted (the
                # regular-expression rule below)
                continue
            where = f'{m.name}.{f._qualname}'

            def leaves(a):
                if isinstance(a, ast.Tuple):
                    for x in a.elts:
                        yield from leaves(x)
                elif isinstance(a, ast.Starred):
                    return
                else:
                    yield a

            single = len(c.args) == 1 and not isinstance(c.args[0],
                                                         (ast.Tuple,
                                                          ast.Starred))
            for a in c.args:
                for x in leaves(a):
                    k = ab.kind(x, m, f)
                    if k[0] in ('node', 'node|none', 'pytuple', 'list',
                                'node-or-int'):
                        continue
                    n += 1
                    ok = False
                    msg = ''
                    if k[0] == 'text?':
                        # a helper result that may be None: needs a None test
                        xt = unparse(x)
                        if (f'{xt} is None', False) in facts_at(f, c):
                            k = k[1]
                        else:
                            k = ('bad', f'"{xt}" may be None when it '
                                 'becomes a leaf')
                    if k[0] in ('int', 'nodeid'):
                        ok = True
                    elif k[0] == 'text':
                        cls, ne = k[1], k[2]
                        if cls in ('TOK', 'VERB'):
                            ok = True
                        elif cls in ('FRAG', 'BITS', 'VERBMOD'):
                            ok = bool(ne)
                            msg = ('the text may be empty: an empty leaf is '
                                   'not a token and is not written at all')
                        else:
                            msg = (f'text of class {cls} becomes a leaf: it '
                                   'is not guaranteed to be one token')
                    elif k[0] == 'bad':
                        msg = k[1]
                    elif k[0] == 'none':
                        msg = 'None becomes a leaf'
                    elif k[0] == 'unknown':
                        raise AnalysisError(
                            f'{m.loc(c)}: cannot classify leaf text '
                            f'"{unparse(x)[:50]}": {k[1]}')
                    chk.check('C15.R3', where, f'leaf text '
                              f'{unparse(x)[:50]}', ok, msg or 'ok',
                              loc=m.loc(c), nontrivial=True,
                              argument=f'class {k[1] if k[0] == "text" else k[0]}')
    chk.floor('C15.R3', 'non-constant leaf texts classified', n, 40)
    # constants
    nc = 0
    for m in mods:
        for c in ast.walk(m.tree):
            if isinstance(c, ast.Call) and call_name(c) in ('Node',
                                                            'nodes.Node'):
                for a in ast.walk(c):
                    if isinstance(a, ast.Constant) and isinstance(
                            a.value, str) and getattr(
                                a, '_parent', None) in (c, ) + tuple(
                                    x for x in c.args
                                    if isinstance(x, ast.Tuple)):
                        nc += 1
                        f = _fn(c)
                        chk.check('C15.R3', f'{m.name}.'
                                  f'{f._qualname if f else ""}',
                                  f'constant leaf {a.value!r}',
                                  single_token(a.value),
                                  f'the constant {a.value!r} is not a single '
                                  'SMT-LIB token', loc=m.loc(a))
    chk.floor('C15.R3', 'constant leaf texts checked', nc, 60)
    # SimplifyQuotedSymbols: the filter's regular expression covers the
    # whole leaf and admits only simple-symbol characters
    ms = prog.mod('mutators_smtlib')
    ff = ms.func('SimplifyQuotedSymbols.filter')
    pats = []
    for c in ast.walk(ms.cls('SimplifyQuotedSymbols')):
        if isinstance(c, ast.Call) and call_name(c) in (
                're.match', 're.fullmatch', 're.compile') and c.args and \
                isinstance(c.args[0], ast.Constant):
            pats.append((c, c.args[0].value, call_name(c)))
    ok = len(pats) == 1
    msg = f'{len(pats)} regular expressions in SimplifyQuotedSymbols'
    if ok:
        c, pat, how = pats[0]
        try:
            import re._parser as sp
        except ImportError:
            import sre_parse as sp
        tree = list(sp.parse(pat))
        # expected: LITERAL '|', MAX_REPEAT(1..inf, IN [...]), LITERAL '|'
        ok = len(tree) == 3 and str(tree[0][0]) == 'LITERAL' and \
            tree[0][1] == ord('|') and str(tree[2][0]) == 'LITERAL' and \
            tree[2][1] == ord('|') and str(tree[1][0]) == 'MAX_REPEAT'
        msg = (f'the pattern {pat!r} does not have the form '
               '\\|<simple symbol characters>+\\| covering the whole leaf '
               '(re.match only anchors at the start): symbols that need '
               'their quotes, such as |x y| or |f(1)|, would be unquoted '
               'into leaves that are not single tokens')
        if ok:
            lo, hi, sub = tree[1][1]
            chars = set()
            good = lo >= 1 and len(sub) == 1 and str(sub[0][0]) == 'IN'
            if good:
                for item in sub[0][1]:
                    if str(item[0]) == 'LITERAL':
                        chars.add(chr(item[1]))
                    elif str(item[0]) == 'RANGE':
                        chars.update(chr(x) for x in range(item[1][0],
                                                           item[1][1] + 1))
                    else:
                        good = False
            ok = good and chars <= SAFE and ';' not in chars
            msg = (f'the character class of {pat!r} admits '
                   f'{sorted(chars - SAFE)}: not simple-symbol characters')
    chk.check('C15.R3', 'mutators_smtlib.SimplifyQuotedSymbols.filter',
              'unquoting only symbols made of simple-symbol characters', ok,
              msg, loc=ms.loc(ff), nontrivial=True)
    gp = prog.mod('smtlib').func('get_piped_symbol')
    okg = 'Node(node[1:-1])' in unparse(gp)
    chk.check('C15.R3', 'smtlib.get_piped_symbol', 'strips exactly the two '
              'pipes', okg, 'get_piped_symbol does not return node[1:-1]',
              loc=prog.mod('smtlib').loc(gp))


def rule_r4(chk, prog, ab):
    chk.rule('C15.R4', 'introduced declarations declare symbols that are '
             'not declared yet: dominated by "not is_var(symbol)" (or built '
             'by derive_symbol, which tests it)')
    n = 0
    for (m, f, c) in emissions(prog):
        fresh = c.args[1] if len(c.args) == 2 else None
        if fresh is None or (isinstance(fresh, ast.List) and not fresh.elts):
            continue
        where = f'{m.name}.{f._qualname}'
        decls = []
        src = fresh
        if isinstance(fresh, ast.Name):
            d = [st.value for st in walk_no_nested(f)
                 if isinstance(st, ast.Assign) and unparse(
                     st.targets[0]) == fresh.id]
            if len(d) == 1:
                src = d[0]
        if isinstance(src, ast.List):
            decls = list(src.elts)
        else:
            raise AnalysisError(f'{m.loc(c)}: fresh_vars '
                                f'"{unparse(fresh)}" not a list literal')
        for d in decls:
            dv = d
            if isinstance(d, ast.Name):
                ds = [st.value for st in walk_no_nested(f)
                      if isinstance(st, ast.Assign) and unparse(
                          st.targets[0]) == d.id]
                dv = ds[0] if len(ds) == 1 else d
            if not (isinstance(dv, ast.Call) and call_name(dv) == 'Node'
                    and dv.args and is_const(dv.args[0])
                    and dv.args[0].value.startswith('declare-')):
                raise AnalysisError(f'{m.loc(c)}: declaration '
                                    f'"{unparse(dv)[:50]}" not recognised')
            n += 1
            sym = dv.args[1]
            st = unparse(sym)
            facts = facts_at(f, c)
            ok = (f'is_var({st})', False) in facts
            how = 'is_var test'
            if not ok and isinstance(sym, ast.Name):
                ds = [s_.value for s_ in walk_no_nested(f)
                      if isinstance(s_, ast.Assign) and unparse(
                          s_.targets[0]) == sym.id]
                if len(ds) == 1 and isinstance(ds[0], ast.Call) and \
                        call_name(ds[0]) == 'derive_symbol':
                    ok = (f'{st} is None', False) in facts
                    how = 'derive_symbol + None test'
            chk.check('C15.R4', where, f'declaration of {st}', ok,
                      f'the symbol "{st}" is declared without a dominating '
                      'test that it is not declared already (is_var): '
                      're-running ddSMT on its own output, or an input that '
                      'uses the name, yields a double declaration',
                      loc=m.loc(c), nontrivial=True, argument=how)
    chk.floor('C15.R4', 'introduced declarations', n, 3)
    # derive_symbol itself tests is_var and rejects non-symbols
    sm = prog.mod('smtlib')
    ds = sm.func('derive_symbol')
    rets = [r for r in walk_no_nested(ds) if isinstance(r, ast.Return)
            and r.value is not None and not (is_const(r.value)
                                             and r.value.value is None)]
    ok = bool(rets)
    for r in rets:
        v_ = r.value
        if isinstance(v_, ast.IfExp):
            # return None if is_var(res) else res  (either orientation)
            arms = [(v_.body, True), (v_.orelse, False)]
            good = True
            for arm, pol_ in arms:
                if is_const(arm) and arm.value is None:
                    continue
                fs_ = {fact_key(x_, p_ if pol_ else not p_)
                       for (x_, p_) in decompose(v_.test, True)} if pol_ \
                    else {fact_key(x_, p_) for (x_, p_) in decompose(
                        v_.test, False)}
                good = good and (f'is_var({unparse(arm)})', False) in fs_
            ok = ok and good
            continue
        facts = facts_at(ds, r.value)
        ok = ok and (f'is_var({unparse(r.value)})', False) in facts
    chk.check('C15.R4', 'smtlib.derive_symbol', 'returns only symbols that '
              'are not declared', ok, 'derive_symbol can return a declared '
              'symbol', loc=sm.loc(ds), nontrivial=True)
    # declarations are placed before use: C11.R5 (prefix insertion)


def rule_r5(chk, prog, ab):
    chk.rule('C15.R5', 'filter => asserted preconditions: an assert in '
             'mutations/global_mutations is implied by the facts the same '
             'class\'s filter establishes (or by a dominating test)')
    summ = ab.summ
    n = 0
    for m in prog.pkg_modules():
        if not m.name.startswith('mutators_'):
            continue
        for cname, cd in m.classes.items():
            meths = m.methods(cname)
            filt = meths.get('filter')
            for mn in ('mutations', 'global_mutations'):
                f = meths.get(mn)
                if f is None:
                    continue
                for st in walk_no_nested(f):
                    if not isinstance(st, ast.Assert):
                        continue
                    t = unparse(st.test)
                    if t.startswith('isinstance('):
                        continue
                    n += 1
                    # an alias of a sub-node (quant = node[1]) is expanded
                    from ..astutil import single_defs
                    al = {k: v for k, v in single_defs(f).items()
                          if isinstance(v, ast.Subscript)}
                    test_x = st.test
                    for _ in range(3):
                        test_x = subst(test_x, al)
                    t = unparse(test_x)
                    facts = set(facts_at(f, st))
                    if filt is not None:
                        ff = summ.true_facts(m, filt)
                        fp = params_of(filt)
                        mp = params_of(f)
                        if len(fp) > 1 and len(mp) > 1 and fp[1] != mp[1]:
                            ren = {fp[1]: ast.Name(id=mp[1],
                                                   ctx=ast.Load())}
                            ff = {(unparse(subst(parse_expr(x), ren)), p)
                                  for (x, p) in ff
                                  if parse_expr(x) is not None}
                        facts |= set(ff)
                    facts = summ.expand(m, facts)
                    ok = (t, True) in facts
                    if not ok:
                        ok = _assert_implied(test_x, facts, f, m, ab)
                    chk.check('C15.R5', f'{m.name}.{cname}.{mn}', st, ok,
                              f'"assert {t}" is not implied by what the '
                              'filter (or a dominating test) establishes: '
                              'the filter accepts nodes on which the '
                              'mutator then fails instead of proposing '
                              '(e.g. hexadecimal constants where only #b is '
                              'handled)', loc=m.loc(st), nontrivial=True)
    chk.floor('C15.R5', 'asserts in mutator bodies', n, 4)


def _assert_implied(test, facts, f, m, ab):
    """a) X in <dict/list of constants D> with a fact get_ident in [...]
    whose constants are a subset of D's keys;  b) get_ident() == 'y' after
    get_ident() == 'x' was refuted and the filter allows only {x, y}."""
    if isinstance(test, ast.Compare) and len(test.ops) == 1:
        l, op, r = test.left, test.ops[0], test.comparators[0]
        lt = unparse(l)
        # normalise node[1][0] / node[0] to get_ident() of its owner
        owner = None
        if isinstance(l, ast.Subscript) and is_const(l.slice, 0):
            owner = unparse(l.value)
        elif isinstance(l, ast.Call) and isinstance(
                l.func, ast.Attribute) and l.func.attr == 'get_ident':
            owner = unparse(l.func.value)
        allowed = None
        for (t, pol) in facts:
            e = parse_expr(t)
            if not pol or e is None:
                continue
            if isinstance(e, ast.Compare) and len(e.ops) == 1 and isinstance(
                    e.ops[0], ast.In) and owner and unparse(
                        e.left) == f'{owner}.get_ident()':
                try:
                    from ..astutil import module_const
                    these = set(module_const(m, e.comparators[0]))
                except (ValueError, TypeError):
                    continue
                allowed = these if allowed is None else (allowed & these)
        disj = None
        for (t, pol) in facts:
            e = parse_expr(t)
            if pol and isinstance(e, ast.BoolOp) and isinstance(
                    e.op, ast.Or) and owner:
                vals = set()
                good = True
                for v in e.values:
                    if isinstance(v, ast.Call) and call_name(
                            v) == 'is_operator_app' and unparse(
                                v.args[0]) == owner and is_const(v.args[1]):
                        vals.add(v.args[1].value)
                    else:
                        good = False
                if good:
                    disj = vals
        if isinstance(op, ast.In) and isinstance(r, ast.Name):
            d = single_defs(f).get(r.id)
            keys = None
            if isinstance(d, ast.Dict):
                keys = {k.value for k in d.keys
                        if isinstance(k, ast.Constant)}
            if keys is not None and allowed is not None:
                return allowed <= keys
        if isinstance(op, ast.Eq) and is_const(r) and owner:
            cands = allowed or disj
            if cands:
                refuted = set()
                for (t, pol) in facts:
                    e = parse_expr(t)
                    if not pol and isinstance(e, ast.Compare) and unparse(
                            e.left) == f'{owner}.get_ident()' and is_const(
                                e.comparators[0]):
                        refuted.add(e.comparators[0].value)
                return cands - refuted == {r.value}
            # is_bv_const(X) & X.has_ident() => X[0] == '_'
            if r.value == '_' and (f'is_bv_const({owner})', True) in facts \
                    and (f'{owner}.has_ident()', True) in facts:
                return True
    return False


# --------------------------------------------------------------------- R8
LEXEME_PREDICATES = {'is_piped_symbol': '|', 'is_string_const': '"'}
from ..regexlex import regex_delimited as _regex_delimited, PROBES  # noqa


def rule_r8(chk, prog):
    chk.rule('C15.R8', 'the lexeme-class predicates mean what the text '
             'abstraction assumes: is_piped_symbol / is_string_const hold '
             'for every leaf that starts and ends with the delimiter '
             '(multi-line quoted symbols, strings with "" included)')
    from ..boolfn import BoolFn
    m = prog.mod('smtlib')
    for pname, q in LEXEME_PREDICATES.items():
        f = m.func(pname)
        where = f'smtlib.{pname}'
        np_ = params_of(f)[0]
        texts = (np_, f'{np_}.data', f'str({np_})')
        regexes = []

        def atomizer(c, q=q, np_=np_, texts=texts, regexes=regexes):
            t = unparse(c)
            if t in (f'{np_}.is_leaf()', f'isinstance({np_}.data, str)'):
                return ('leaf', True)
            for base in texts:
                if t in (f"{base}[0] == {q!r}", f"{base}.startswith({q!r})",
                         f"{q!r} == {base}[0]", f"{base}[:1] == {q!r}",
                         f"{base}[0:1] == {q!r}"):
                    return ('first', True)
                if t in (f"{base}[0] != {q!r}", ):
                    return ('first', False)
                if t in (f"{base}[-1] == {q!r}", f"{base}.endswith({q!r})",
                         f"{q!r} == {base}[-1]", f"{base}[-1:] == {q!r}"):
                    return ('last', True)
                if t in (f"{base}[-1] != {q!r}", ):
                    return ('last', False)
            call, pol = None, True
            if isinstance(c, ast.Compare) and len(c.ops) == 1 and isinstance(
                    c.ops[0], (ast.IsNot, ast.NotEq, ast.Is, ast.Eq)) and \
                    isinstance(c.comparators[0], ast.Constant) and \
                    c.comparators[0].value is None:
                call = c.left
                pol = isinstance(c.ops[0], (ast.IsNot, ast.NotEq))
            elif isinstance(c, ast.Call) and call_name(c) == 'bool' and \
                    c.args:
                call = c.args[0]
            elif isinstance(c, ast.Call):
                call = c
            if isinstance(call, ast.Call) and (call_name(call) or '') in (
                    're.match', 're.fullmatch', 're.search'):
                regexes.append(call)
                return ('regex', pol)
            raise AnalysisError(
                f'C15.R8: {where}: test "{t[:70]}" is neither a leaf test, '
                'a first/last-character test nor a regular expression')

        # "a == b == q" chains: split before extraction
        class Chain(ast.NodeTransformer):

            def visit_Compare(self_, n):
                if len(n.ops) == 2 and all(
                        isinstance(o, ast.Eq) for o in n.ops):
                    a, b, c = n.left, n.comparators[0], n.comparators[1]
                    qs = [x for x in (a, b, c) if isinstance(
                        x, ast.Constant) and x.value == q]
                    others = [x for x in (a, b, c) if x not in qs]
                    if len(qs) == 1 and len(others) == 2:
                        return ast.BoolOp(op=ast.And(), values=[
                            ast.Compare(left=o, ops=[ast.Eq()],
                                        comparators=[qs[0]])
                            for o in others])
                return n

        from ..astutil import clone as _clone
        fn = Chain().visit(_clone(f))
        bf = BoolFn(fn, atomizer)
        keys = set(bf.atom_keys)
        verdict = None
        if regexes:
            call = regexes[0]
            if len(call.args) < 2 or not (isinstance(
                    call.args[0], ast.Constant) and isinstance(
                        call.args[0].value, str)):
                raise AnalysisError(
                    f'C15.R8: {m.loc(call)}: pattern is not a literal')
            if unparse(call.args[1]) not in texts:
                raise AnalysisError(
                    f'C15.R8: {m.loc(call)}: matched text is '
                    f'{unparse(call.args[1])}')
            fl = call.args[2] if len(call.args) > 2 else kw(call, 'flags')
            dotall = fl is not None and ('DOTALL' in unparse(fl)
                                         or unparse(fl).endswith('.S'))
            pat = call.args[0].value
            if call_name(call) == 're.search' and not pat.startswith(
                    ('^', '\\A')):
                verdict = (False, 'the pattern is searched, not matched at '
                           'the start', call)
            else:
                ok, why = _regex_delimited(
                    pat, dotall, q, call_name(call) == 're.fullmatch',
                    q == '"')
                verdict = (ok, why, call)
        need = {'leaf'} | ({'regex'} if regexes else {'first', 'last'})
        if not need <= keys:
            raise AnalysisError(
                f'C15.R8: {where} does not test {sorted(need - keys)}')
        wrong = [val for val, res in bf.table()
                 if bool(res) != all(val[k] for k in keys)]
        shape_ok = not wrong
        if verdict is not None:
            chk.check('C15.R8', where, verdict[2], verdict[0] and shape_ok,
                      f'{pname} decides with the pattern '
                      f'{verdict[2].args[0].value!r}: {verdict[1]}; callers '
                      'then treat such a leaf as a simple symbol (cut it, '
                      'prefix it) and propose leaves that are not single '
                      'tokens', loc=m.loc(verdict[2]), nontrivial=True)
        else:
            chk.check('C15.R8', where, f'leaf, first and last character '
                      f'are {q!r}', shape_ok,
                      f'{pname} is not the conjunction of "is a leaf", '
                      f'"starts with {q}" and "ends with {q}" (differs for '
                      f'{wrong[:1]})', loc=m.loc(f), nontrivial=True)


def rule_r13(chk, prog):
    chk.rule('C15.R13', 'the record types that carry proposals have no '
             'mutable default value: a list / dict / set given as a '
             'namedtuple default (or as a parameter default of a '
             'function that builds proposals) is ONE object shared by '
             'every record that omits the field')
    n = 0

    def mutable(e):
        return isinstance(e, (ast.List, ast.Dict, ast.Set, ast.ListComp,
                              ast.DictComp, ast.SetComp)) or (
            isinstance(e, ast.Call) and call_name(e) in (
                'list', 'dict', 'set', 'collections.defaultdict',
                'collections.deque', 'bytearray'))

    for m_ in prog.pkg_modules():
        if 'tests' in m_.rel():
            continue
        for c in ast.walk(m_.tree):
            if isinstance(c, ast.Call) and (call_name(c) or '') in (
                    'collections.namedtuple', 'namedtuple'):
                n += 1
                d = kw(c, 'defaults')
                bad = [x for x in (d.elts if isinstance(
                    d, (ast.Tuple, ast.List)) else []) if mutable(x)]
                chk.check('C15.R13', m_.name, c, not bad,
                          f'"{unparse(c)[:60]}" has the mutable default '
                          f'{unparse(bad[0]) if bad else ""}: every '
                          'record built without that field shares it; '
                          'what one proposal appends (fresh '
                          'declarations, substitutions) shows up in '
                          'all later ones', loc=m_.loc(c),
                          nontrivial=True)
            if isinstance(c, ast.ClassDef) and any(
                    unparse(b) in ('typing.NamedTuple', 'NamedTuple')
                    for b in c.bases):
                n += 1
                bad = [b for b in c.body if isinstance(b, ast.AnnAssign)
                       and b.value is not None and mutable(b.value)]
                chk.check('C15.R13', m_.name, c.name, not bad,
                          f'record {c.name} has the mutable default '
                          f'"{unparse(bad[0])[:50] if bad else ""}"',
                          loc=m_.loc(c), nontrivial=True)
    chk.floor('C15.R13', 'record types', n, 4)


def run(tier):
    prog = Program()
    chk = Check(
        PROP, 'other', tier,
        clauses_decided=[
            'replacement and declaration types (abstract shape domain over '
            'all Simplification sites)',
            'key provenance',
            'leaf-text provenance of every Node(...) construction in the '
            'mutator modules and smtlib; constants checked against the '
            'reference lexer',
            'freshness guards of introduced declarations',
            'asserted preconditions are implied by the filter',
        ],
        clauses_not_decided=[
            'well-sortedness of the result',
            'placement of declarations before first use is C11.R5',
        ],
        assumptions=[
            'text of existing leaves is a single token (reader output, C08)',
            'inner text of a quoted symbol contains no "|"',
        ])
    summ = Summaries(prog)
    ab = Abs(prog, summ)
    chk.guard(rule_r1_r2, chk, prog, ab)
    chk.guard(rule_r3, chk, prog, ab)
    chk.guard(rule_r4, chk, prog, ab)
    chk.guard(rule_r5, chk, prog, ab)
    chk.guard(rule_r8, chk, prog)
    # declarations are placed before their first use: the prefix-insertion
    # rule of C11.R5
    from . import c11
    sub = Check('C11', 'other', tier, [], [])
    chk.guard(c11.rule_r5, sub, prog)
    chk.rule('C15.R6', 'introduced declarations are inserted right after the '
             'leading set-info/set-logic prefix, i.e. before every use '
             '(shared with C11.R5)')
    for r in sub.instances:
        chk.instance('C15.R6', r['where'], r['what'], r['verdict'] == 'holds',
                     r['argument'], nontrivial=True, loc=r['loc'])
    for f_ in sub.findings:
        chk.violation('C15.R6', f_.where, f_.construct, f_.msg, f_.loc)
    # freshness tests (is_var / derive_symbol) consult the symbol tables:
    # they must describe the input the proposal is made for
    from . import c02
    sub2 = Check('C02', 'other', tier, [], [])
    chk.guard(c02.rule_r6, sub2, prog)
    from . import c16
    chk.guard(c16.rule_r9, sub2, prog)
    chk.adopt('C15.R7', 'the symbol tables consulted by the freshness tests '
              'are reset and rebuilt from the current input before every '
              'sweep (shared with C02.R6 / C16.R6): a symbol introduced by '
              'an accepted proposal is seen by the next one', sub2)
    from .. import genreuse
    chk.guard(genreuse.rule, chk, prog, 'C15.R9',
              'a mutator does not traverse a one-shot iterator twice on one '
              'path', {m_.name: None for m_ in prog.pkg_modules()
                       if m_.name.startswith('mutators_')
                       or m_.name in ('smtlib', 'mutator_utils')},
              'the proposals built from the second traversal are empty or '
              'truncated terms')
    # proposals are pickled on their way to the worker that applies them
    # (hierarchical tasks, parallel ddmin): the hand-written pickle format
    # must carry leaf texts verbatim, else what is applied is not what was
    # proposed (shared with C12.R1, text part)
    from . import c12 as _c12
    sub12 = Check('C12', 'other', tier, [], [])
    chk.guard(_c12.rule_r1, sub12, prog)
    Check.restrict(sub12, lambda wh, what: not any(
        k in what for k in ('hash width', '(id, hash) restored',
                            'slots restored', "b'(': fields")))
    chk.adopt('C15.R10', 'the leaf texts of a proposal cross the process '
              'boundary verbatim: the pickle writer and reader agree on '
              'tags, lengths (in bytes), field order and codec (shared with '
              'C12.R1)', sub12)
    from .. import depthrec
    chk.guard(depthrec.report, chk, prog, 'C15.R11',
              'no function of the tree core that applies a proposal recurses over the nesting depth (directly, through helpers, generators, tuple comparison, deepcopy or the generic pickler)',
              [('nodes', 'substitute'), ('nodes', 'Node.__eq__'), ('nodes', 'Node.__hash__')],
              'proposals that lie inside or behind a deeply nested term cannot be applied (RecursionError)')
    chk.guard(rule_r13, chk, prog)
    from .. import mutstate
    chk.guard(mutstate.report, chk, prog, 'C15.R12',
              'mutators keep no state from one call to the next: their '
              'protocol methods store nothing on the object, the class or '
              'module-level containers except option values and constants',
              'proposals refer to nodes, sorts or symbols of another input or another node')
    from .. import probes
    chk.guard(probes.report_lexemes, chk, prog, 'C15.R14',
              'the lexeme-class predicates (is_string_const, '
              'is_piped_symbol, is_bv_const, is_int_const, is_real_const), '
              'folded on well-formed leaves, classify them as SMT-LIB does',
              'a quoted symbol or string literal that is not recognised is cut, prefixed or re-quoted as if it were a simple symbol: the proposal contains leaves that are not single tokens')
    extra = None
    if tier == 'thorough':
        from .. import selftest
        extra = selftest.run_for(PROP)
    return chk.finish(extra)
