"""C13 - the working input is a tree: node identities pairwise distinct."""
import ast

from ..astutil import (call_name, calls_in, walk_no_nested, params_of, kw,
                       bind_args, is_const)
from ..cfg import (cfg_of, loop_body_paths, expr_owner_node, reaching_defs)
from ..loader import Program, AnalysisError, unparse
from ..pathutil import (path_method_calls, facts_before, describe_path,
                        node_calls)
from ..report import Check

PROP = 'C13'

CLEAN_CALLS = ('nodes.reduplicate', 'reduplicate', 'copy.deepcopy')


class Clean:
    """Interprocedural def-use: is a value identity-distinct ("clean")?
    Greatest fixpoint: a query in progress is assumed clean (cycles through
    loop-carried variables are justified by their other definitions)."""

    def __init__(self, prog, chk):
        self.prog = prog
        self.chk = chk
        self.memo = {}
        self.rd = {}
        self.trace = []

    def rdefs(self, mod, func):
        k = id(func)
        if k not in self.rd:
            cfg = cfg_of(func)
            self.rd[k] = (cfg, reaching_defs(cfg, params_of(func)))
        return self.rd[k]

    def callers(self, mod, qualname):
        res = []
        for om in self.prog.pkg_modules():
            for c in ast.walk(om.tree):
                if isinstance(c, ast.Call) and isinstance(
                        c.func, (ast.Name, ast.Attribute)):
                    r = self.prog.resolve_expr(om, c.func)
                    if r and r[0] == 'func' and r[1] is mod and \
                            r[2] == qualname:
                        res.append((om, c))
        return res

    def var(self, mod, func, node, name, depth=0):
        """Is variable ``name`` clean when CFG node ``node`` executes?"""
        key = ('var', mod.name, func._qualname, node.id, name)
        if key in self.memo:
            return self.memo[key]
        self.memo[key] = (True, 'assumed (cycle)')
        cfg, RD = self.rdefs(mod, func)
        defs = (RD.get(node) or {}).get(name)
        if not defs:
            res = (False, f'{name} has no reaching definition at '
                   f'{mod.loc(node.ast)}')
            self.memo[key] = res
            return res
        for d in sorted(defs, key=lambda x: -1 if x == 'param' else x.id):
            if d == 'param':
                cs = self.callers(mod, func._qualname)
                if not cs:
                    res = (False, f'parameter {name} of {func._qualname} '
                           'has no resolvable call site')
                    self.memo[key] = res
                    return res
                pidx = params_of(func).index(name)
                for (om, c) in cs:
                    b = bind_args(c, func)
                    if name not in b:
                        res = (False, f'call at {om.loc(c)} does not pass '
                               f'{name}')
                        self.memo[key] = res
                        return res
                    ofn = _enclosing_fn(c)
                    if ofn is None:
                        res = (False, f'call at {om.loc(c)} at module level')
                        self.memo[key] = res
                        return res
                    ocfg = cfg_of(ofn)
                    on = expr_owner_node(ocfg, c)
                    r = self.value(om, ofn, on, b[name], None, depth + 1)
                    if not r[0]:
                        res = (False, f'{name} of {func._qualname} receives '
                               f'"{unparse(b[name])}" at {om.loc(c)}: {r[1]}')
                        self.memo[key] = res
                        return res
                continue
            a = d.ast
            if d.kind == 'stmt' and isinstance(a, ast.Assign):
                idx = None
                t = a.targets[0]
                if isinstance(t, ast.Tuple):
                    names = [x.id if isinstance(x, ast.Name) else None
                             for x in t.elts]
                    if name not in names:
                        res = (False, f'unsupported target {unparse(t)}')
                        self.memo[key] = res
                        return res
                    idx = names.index(name)
                elif not (isinstance(t, ast.Name) and t.id == name):
                    res = (False, f'unsupported target {unparse(t)}')
                    self.memo[key] = res
                    return res
                r = self.value(mod, func, d, a.value, idx, depth + 1)
                if not r[0]:
                    res = (False, f'definition "{unparse(a)[:70]}" at '
                           f'{mod.loc(a)}: {r[1]}')
                    self.memo[key] = res
                    return res
            else:
                res = (False, f'{name} is bound at {mod.loc(a)} by a '
                       f'{d.kind} (not an assignment)')
                self.memo[key] = res
                return res
        res = (True, 'all reaching definitions are identity-distinct')
        self.memo[key] = res
        return res

    def value(self, mod, func, node, e, idx, depth):
        if depth > 12:
            return (False, 'def-use chain deeper than 12')
        if isinstance(e, ast.Tuple) and idx is not None:
            return self.value(mod, func, node, e.elts[idx], None, depth)
        if isinstance(e, ast.Name):
            return self.var(mod, func, node, e.id, depth)
        if isinstance(e, ast.IfExp):
            for x in (e.body, e.orelse):
                r = self.value(mod, func, node, x, idx, depth)
                if not r[0]:
                    return r
            return (True, '')
        if isinstance(e, ast.Call):
            nm = call_name(e)
            if nm in CLEAN_CALLS and idx is None:
                return (True, f'{nm}(...)')
            if nm == 'list' and len(e.args) == 1 and isinstance(
                    e.args[0], ast.Call) and (call_name(e.args[0]) or
                                              '').endswith('parse_smtlib'):
                return (True, 'fresh from the parser')
            r = None
            if isinstance(e.func, (ast.Name, ast.Attribute)):
                r = self.prog.resolve_expr(mod, e.func)
            if not (r and r[0] == 'func') and isinstance(e.func, ast.Name):
                # a local bound to one of several functions
                # ("check = _par if .. else _seq; x = check(..)")
                cfg_, RD_ = self.rdefs(mod, func)
                ds_ = (RD_.get(node) or {}).get(e.func.id) or ()
                alts = []
                okalt = bool(ds_)
                for d_ in ds_:
                    if d_ == 'param' or not (d_.kind == 'stmt' and isinstance(
                            d_.ast, ast.Assign)):
                        okalt = False
                        break
                    v_ = d_.ast.value
                    cands = [v_.body, v_.orelse] if isinstance(
                        v_, ast.IfExp) else [v_]
                    for c_ in cands:
                        rr_ = self.prog.resolve_expr(mod, c_) if isinstance(
                            c_, (ast.Name, ast.Attribute)) else None
                        if not (rr_ and rr_[0] == 'func'):
                            okalt = False
                        else:
                            alts.append(rr_)
                if okalt and alts:
                    for rr_ in alts:
                        fake = ast.Call(func=ast.Name(id=rr_[2],
                                                      ctx=ast.Load()),
                                        args=e.args, keywords=e.keywords)
                        gm, gq = rr_[1], rr_[2]
                        g = gm.funcs[gq]
                        gcfg = cfg_of(g)
                        rets = [n for n in gcfg.nodes if n.kind == 'stmt'
                                and isinstance(n.ast, ast.Return)]
                        if not rets:
                            return (False, f'{gq} returns nothing')
                        for rn in rets:
                            if rn.ast.value is None:
                                return (False, f'{gq} may return None')
                            r2 = self.value(gm, g, rn, rn.ast.value, idx,
                                            depth + 1)
                            if not r2[0]:
                                return (False, f'return of {gq} at '
                                        f'{gm.loc(rn.ast)}: {r2[1]}')
                    return (True, 'every return of every function the '
                            f'local "{e.func.id}" may denote')
            if r and r[0] == 'func':
                gm, gq = r[1], r[2]
                g = gm.funcs[gq]
                gcfg = cfg_of(g)
                rets = [n for n in gcfg.nodes if n.kind == 'stmt'
                        and isinstance(n.ast, ast.Return)]
                if not rets:
                    return (False, f'{gq} returns nothing')
                for rn in rets:
                    if rn.ast.value is None:
                        return (False, f'{gq} may return None')
                    rr = self.value(gm, g, rn, rn.ast.value, idx, depth + 1)
                    if not rr[0]:
                        return (False, f'return of {gq} at '
                                f'{gm.loc(rn.ast)}: {rr[1]}')
                return (True, f'every return of {gq}')
            return (False, f'"{unparse(e)[:60]}" is not a re-duplicating '
                    'call and not resolvable to a function whose results '
                    'are re-duplicated')
        return (False, f'"{unparse(e)[:60]}" is not recognised as '
                'identity-distinct')


def _enclosing_fn(node):
    n = getattr(node, '_parent', None)
    while n is not None:
        if isinstance(n, ast.FunctionDef):
            return n
        n = getattr(n, '_parent', None)
    return None


def rule_r1(chk, prog):
    chk.rule('C13.R1', 'every input handed to a generator of identity-keyed '
             'proposals (TaskGenerator, Producer) is re-duplicated or fresh '
             'from the parser on every def-use chain')
    sinks = []
    for modname, cls, pname in (('strategy_ddmin', 'TaskGenerator', 'exprs'),
                                ('strategy_hierarchical', 'Producer',
                                 'original')):
        m = prog.mod(modname)
        init = m.func(f'{cls}.__init__')
        ps = params_of(init)
        if pname not in ps:
            raise AnalysisError(f'{cls}.__init__ has no parameter {pname}')
        for om in prog.pkg_modules():
            for c in ast.walk(om.tree):
                if isinstance(c, ast.Call) and isinstance(
                        c.func, (ast.Name, ast.Attribute)):
                    r = prog.resolve_expr(om, c.func)
                    if r and r[0] == 'class' and r[1] is m and r[2] == cls:
                        b = bind_args(c, init, skip_self=True)
                        if pname not in b:
                            raise AnalysisError(
                                f'{om.loc(c)}: {cls}(...) without {pname}')
                        sinks.append((om, c, b[pname], cls))
    chk.floor('C13.R1', 'generator construction sites', len(sinks), 2)
    cl = Clean(prog, chk)
    for (om, c, arg, cls) in sinks:
        fn = _enclosing_fn(c)
        cfg = cfg_of(fn)
        n = expr_owner_node(cfg, c)
        ok, why = cl.value(om, fn, n, arg, None, 0)
        chk.check('C13.R1', f'{om.name}.{fn._qualname}', c, ok,
                  f'{cls} is built from "{unparse(arg)}" which may carry '
                  f'repeated node identities: {why}', loc=om.loc(c),
                  nontrivial=True,
                  argument=f'all def-use chains of "{unparse(arg)}" end in '
                  'reduplicate()/parser output')
    chk.extra['C13.R1_defuse_queries'] = len(cl.memo)


def _pairwise_id_test(m, text, popv):
    """Does the expression (fact text) hold exactly when some child of the
    popped node differs in identity from the rebuilt child at the same
    position?  Recognised: any(... zip(<node>, <children>) ... .id != .id),
    in map/lambda or generator form, or a helper of the module whose loop
    over zip(<params>) returns True on the first differing id and False at
    the end."""
    try:
        e = ast.parse(text, mode='eval').body
    except SyntaxError:
        return False

    def id_ne(x):
        return any(isinstance(c, ast.Compare) and len(c.ops) == 1
                   and isinstance(c.ops[0], ast.NotEq)
                   and all(isinstance(s_, ast.Attribute) and s_.attr == 'id'
                           for s_ in (c.left, c.comparators[0]))
                   for c in ast.walk(x))

    def zips(x, names):
        for c in ast.walk(x):
            if isinstance(c, ast.Call) and call_name(c) == 'zip' and len(
                    c.args) == 2:
                a0 = unparse(c.args[0])
                if a0 in names or a0.replace('.data', '') in names:
                    return True
        return False

    if isinstance(e, ast.Call) and call_name(e) == 'any':
        return zips(e, {popv}) and id_ne(e)
    if isinstance(e, ast.Call) and call_name(e) in m.funcs and e.args and \
            unparse(e.args[0]) == popv:
        h = m.funcs[call_name(e)]
        hp = params_of(h)
        loops_ = [l for l in walk_no_nested(h) if isinstance(l, ast.For)]
        if len(loops_) != 1 or not zips(loops_[0].iter, {hp[0]}):
            return False
        lp = loops_[0]
        ifs = [i for i in ast.walk(lp) if isinstance(i, ast.If)]
        ok = len(ifs) == 1 and id_ne(ifs[0].test) and any(
            isinstance(r, ast.Return) and is_const(r.value, True)
            for r in ifs[0].body)
        last = h.body[-1]
        return ok and isinstance(last, ast.Return) and is_const(
            last.value, False) and not lp.orelse
    return False


def rule_r234(chk, prog):
    chk.rule('C13.R2', 'reduplicate reuses an original object only after '
             'testing that its identity has not been seen')
    chk.rule('C13.R3', 'rebuilt nodes are constructed from the unchanged '
             'text / the rebuilt children only, without _id=')
    chk.rule('C13.R4', 'every reused object enters the seen-set')
    m = prog.mod('nodes')
    f = m.func('reduplicate')
    where = 'nodes.reduplicate'
    cfg = cfg_of(f)
    loops = [n for n in walk_no_nested(f) if isinstance(n, ast.While)]
    if len(loops) != 1:
        raise AnalysisError('reduplicate: expected one work loop')
    # the seen-set
    sets = [st.targets[0].id for st in walk_no_nested(f)
            if isinstance(st, ast.Assign) and isinstance(
                st.value, ast.Call) and call_name(st.value) == 'set'
            and isinstance(st.targets[0], ast.Name)]
    if len(sets) != 1:
        raise AnalysisError('reduplicate: seen-set not found')
    seen = sets[0]
    # roles: the work list (loop test) and the frame stack ([[]])
    work = unparse(loops[0].test)
    frames = None
    for st in walk_no_nested(f):
        if isinstance(st, ast.Assign) and isinstance(
                st.targets[0], ast.Name) and isinstance(
                    st.value, ast.List) and len(
                        st.value.elts) == 1 and isinstance(
                            st.value.elts[0], ast.List) and \
                not st.value.elts[0].elts:
            frames = st.targets[0].id
    if frames is None:
        raise AnalysisError('reduplicate: frame stack ([[]]) not found')
    # popped variable
    popv = None
    for st in ast.walk(loops[0]):
        if isinstance(st, ast.Assign) and isinstance(
                st.value, ast.Call) and isinstance(
                    st.value.func, ast.Attribute) and \
                st.value.func.attr == 'pop' and unparse(
                    st.value.func.value) == work:
            t = st.targets[0]
            popv = t.elts[0].id if isinstance(t, ast.Tuple) else t.id
    if popv is None:
        raise AnalysisError('reduplicate: popped variable not found')
    paths = loop_body_paths(cfg, loops[0])
    nap = 0
    for p in paths:
        if p.end is not cfg.node_of[id(loops[0])]:
            continue
        desc = describe_path(p)
        apps = [(i, n, c) for (i, n, c) in path_method_calls(p,
                                                             attr='append')
                if unparse(c.func.value) == f'{frames}[-1]']
        # local definitions on the path (node = Node(*children))
        local = {}
        for n in p.nodes[:-1]:
            a = n.ast
            if n.kind == 'stmt' and isinstance(a, ast.Assign) and isinstance(
                    a.targets[0], ast.Name):
                local[a.targets[0].id] = a.value
        adds = [unparse(c.args[0]) for (i, n, c) in path_method_calls(
            p, recv=seen, attr='add') if c.args]
        for (i, n, c) in apps:
            nap += 1
            a = c.args[0]
            if isinstance(a, ast.Name) and a.id in local and a.id != popv:
                val = local[a.id]
            else:
                val = a
            before = set(facts_before(p, i))
            if isinstance(val, ast.Name) and val.id == popv:
                # reuse of the original object
                ok = (f'{popv}.id in {seen}', False) in before
                chk.check('C13.R2', where, f'{desc}: reuse of {popv}', ok,
                          f'the original object is put into the result '
                          f'without a preceding test "{popv}.id not in '
                          f'{seen}": a shared node (e.g. an empty list '
                          '"()" occurring twice) keeps its duplicate '
                          'identity', loc=m.loc(c), nontrivial=True)
                ok4 = f'{popv}.id' in adds
                chk.check('C13.R4', where, f'{desc}: {seen}.add', ok4,
                          'a reused object is not recorded in the seen-set',
                          loc=m.loc(c), nontrivial=True)
                # on the list arm the children must be unchanged
                if (f'{popv}.is_leaf()', False) in before:
                    unchanged = any(
                        not pol and _pairwise_id_test(m, t, popv)
                        for (t, pol) in before)
                    chk.check('C13.R2', where, f'{desc}: children unchanged',
                              unchanged, 'a list node is reused although '
                              'its children were not shown to be the '
                              'original objects', loc=m.loc(c),
                              nontrivial=True)
            elif isinstance(val, ast.Call) and call_name(val) == 'Node':
                args = [unparse(x) for x in val.args]
                kws = [k.arg for k in val.keywords]
                starred = len(val.args) == 1 and isinstance(
                    val.args[0], ast.Starred) and isinstance(
                        val.args[0].value, ast.Name)
                ok = not kws and (args == [f'{popv}.data'] or starred)
                if args == [f'{popv}.data']:
                    # only a leaf is re-created from its text: Node(()) of
                    # an empty list "()" would be the list "(())"
                    ok = ok and (f'{popv}.is_leaf()', True) in before
                if starred:
                    # children must be this frame's rebuilt children
                    cn = val.args[0].value.id
                    ok = ok and cn in local and unparse(
                        local[cn]) == f'{frames}.pop()'
                chk.check('C13.R3', where, f'{desc}: {unparse(val)}', ok,
                          'a rebuilt node must be Node(<original text>) or '
                          'Node(*<rebuilt children>) with a fresh identity',
                          loc=m.loc(c), nontrivial=True)
            else:
                chk.check('C13.R3', where, f'{desc}: append {unparse(a)}',
                          False, 'unrecognised value put into the result',
                          loc=m.loc(c))
    chk.floor('C13.R2', 'result appends examined', nap, 4)
    # all children pushed, in order
    exts = [c for c in calls_in(loops[0]) if isinstance(
        c.func, ast.Attribute) and c.func.attr == 'extend'
        and unparse(c.func.value) == work]
    ok = len(exts) == 1 and f'reversed({popv}.data)' in unparse(exts[0])
    chk.check('C13.R3', where, 'children pushed reversed', ok,
              'children are not pushed completely and in reverse order',
              loc=m.loc(f), nontrivial=True)
    rets = [s for s in walk_no_nested(f) if isinstance(s, ast.Return)]
    chk.check('C13.R3', where, 'returns the rebuilt list',
              len(rets) == 1 and unparse(rets[0].value) == f'{frames}[0]',
              'unexpected return value', loc=m.loc(f))


def run(tier):
    prog = Program()
    chk = Check(
        PROP, 'other', tier,
        clauses_decided=[
            'every input from which a round of identity-keyed proposals is '
            'generated went through reduplicate (or is parser output) on all '
            'def-use chains',
            'reduplicate reuses an object only after the membership test and '
            'records it; otherwise it rebuilds from unchanged text/children '
            'with a fresh identity',
        ],
        clauses_not_decided=[
            'inputs updated inside one ddmin granularity round '
            '(taskgen.update) are not re-duplicated before the next task of '
            'the same round; the property speaks of rounds',
        ],
        assumptions=['Node(...) without _id= draws a fresh identity '
                     '(C12.R4)'])
    chk.guard(rule_r1, chk, prog)
    chk.guard(rule_r234, chk, prog)
    # fresh identities are unique across processes: same rule as C12.R4
    from . import c12
    sub = Check('C12', 'other', tier, [], [])
    chk.guard(c12.rule_r4, sub, prog)
    chk.rule('C13.R5', 'identity source (shared with C12.R4): ids are '
             'drawn from the process-shared counter under its lock; _id= '
             'only in the unpickler')
    for r in sub.instances:
        chk.instance('C13.R5', r['where'], r['what'], r['verdict'] == 'holds',
                     r['argument'], nontrivial=True, loc=r['loc'])
    for f_ in sub.findings:
        chk.violation('C13.R5', f_.where, f_.construct, f_.msg, f_.loc)
    # reduplicate pairs a node's old children with the rebuilt ones by
    # iterating the node: iteration must yield all of data (shared with
    # C12.R7)
    from . import c12
    sub12 = Check('C12', 'other', tier, [], [])
    chk.guard(c12.rule_r7, sub12, prog)
    chk.adopt('C13.R6', 'iterating a node yields exactly its children, so '
              'zip(node, rebuilt children) compares each child with its own '
              'copy (shared with C12.R7)', sub12)
    from .. import freshnodes
    chk.guard(freshnodes.report, chk, prog, 'C13.R7',
              'the reader allocates one node object per position: no node '
              'created before the scanning loop, at module level or by a '
              'memoised constructor is placed into the parsed input',
              'the very first input a strategy works on has repeated identities; nothing re-duplicates it before the first round')
    sub12b = Check('C12', 'other', tier, [], [])
    chk.guard(c12.rule_r4, sub12b, prog)
    chk.guard(c12.rule_r11, sub12b, prog)
    chk.adopt('C13.R8', 'fresh identities are fresh: one shared counter of '
              'the width the pickle format carries, incremented under its '
              'lock, never wrapping within the id field (shared with C12.R4 '
              'and C12.R11)', sub12b)
    extra = None
    if tier == 'thorough':
        from .. import selftest
        extra = selftest.run_for(PROP)
    return chk.finish(extra)
