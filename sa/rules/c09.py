"""C09 - a candidate is accepted iff it matches the golden run as documented.

Level: proof (finite obligation set, discharged exhaustively).
"""
import ast
import itertools

from ..astutil import (expand_locals, opt_read, dotted, call_name, calls_in, bind_args,
                       params_of, walk_no_nested, kw, is_const, subst,
                       global_decls, docstring_free)
from ..boolfn import BoolFn, expr_atoms
from ..cfg import cfg_of, fact_key, expr_owner_node
from ..loader import Program, AnalysisError, unparse
from ..report import Check
from . import options_table

PROP = 'C09'

# canonical parameter roles of matches_golden, by position
MG_ROLES = ['golden', 'run', 'ignore_out', 'ignore_err', 'match_out',
            'match_err']


def _is_logging(e):
    return isinstance(e, ast.Call) and (call_name(e) or '').startswith(
        'logging.')


def mg_atomizer(func):
    """Atomizer for matches_golden: names atoms canonically by parameter
    *position* so that renaming parameters is neutral."""
    params = params_of(func)
    if len(params) != 6:
        raise AnalysisError(
            f'matches_golden has {len(params)} parameters, 6 expected '
            '(golden, run, ignore_out, ignore_err, match_out, match_err)')
    role = dict(zip(params, MG_ROLES))

    def canon(e):
        # golden.out -> 'golden.out'
        if isinstance(e, ast.Attribute) and isinstance(e.value, ast.Name) \
                and e.value.id in role:
            return f'{role[e.value.id]}.{e.attr}'
        if isinstance(e, ast.Name) and e.id in role:
            return role[e.id]
        return None

    def atom(e):
        if isinstance(e, ast.Name):
            c = canon(e)
            if c in ('ignore_out', 'ignore_err', 'match_out', 'match_err'):
                return (('truthy', c), True)
        if isinstance(e, ast.Compare) and len(e.ops) == 1:
            op = e.ops[0]
            l, r = canon(e.left), canon(e.comparators[0])
            # match_out is (not) None  ~ "a match string is configured"
            if isinstance(op, (ast.Is, ast.IsNot)) and l in (
                    'match_out', 'match_err') and is_const(
                        e.comparators[0]) and e.comparators[0].value is None:
                return (('truthy', l), isinstance(op, ast.IsNot))
            if l is not None and r is not None:
                if isinstance(op, (ast.Eq, ast.NotEq)):
                    a, b = sorted([l, r])
                    return (('eq', a, b), isinstance(op, ast.Eq))
                if isinstance(op, (ast.In, ast.NotIn)):
                    return (('in', l, r), isinstance(op, ast.In))
                if isinstance(op, (ast.Is, ast.IsNot)):
                    # object identity of two values (ints, strings) is not
                    # the documented equality: an atom of its own
                    a, b = sorted([l, r])
                    return (('is', a, b), isinstance(op, ast.Is))
        # other tests between two parameters (regular expression search,
        # prefix tests, ...) are atoms of their own: the decision then
        # depends on something the documented rule does not mention
        if isinstance(e, ast.Call):
            args_c = [canon(a) for a in e.args]
            nm = call_name(e) or ''
            if nm.startswith('re.') and len(args_c) == 2 and all(args_c):
                return ((nm, args_c[0], args_c[1]), True)
            if isinstance(e.func, ast.Attribute) and canon(
                    e.func.value) and len(args_c) == 1 and args_c[0] and \
                    e.func.attr in ('startswith', 'endswith', 'find',
                                    'count', 'index', '__contains__'):
                return (('.' + e.func.attr, canon(e.func.value),
                         args_c[0]), True)
        raise AnalysisError(
            f'matches_golden: expression "{unparse(e)}" (line '
            f'{getattr(e, "lineno", "?")}) is not a recognised atom over the '
            'parameters (exit/out/err comparisons, ignore/match flags)')

    return atom


def mg_reference(v):
    """The documented rule (statement of C09; quickstart "How Behavior is
    Compared")."""
    g = lambda k: v.get(k, False)  # noqa: E731
    exit_eq = g(('eq', 'golden.exit', 'run.exit'))
    io, ie = g(('truthy', 'ignore_out')), g(('truthy', 'ignore_err'))
    mo, me = g(('truthy', 'match_out')), g(('truthy', 'match_err'))
    mo_in = g(('in', 'match_out', 'run.out'))
    me_in = g(('in', 'match_err', 'run.err'))
    out_eq = g(('eq', 'golden.out', 'run.out'))
    err_eq = g(('eq', 'golden.err', 'run.err'))
    out_ok = io or (mo_in if mo else out_eq)
    err_ok = ie or (me_in if me else err_eq)
    return exit_eq and out_ok and err_ok


def _consistent(val):
    """Equal strings contain each other: valuations that contradict this
    describe no run."""
    for k, v in val.items():
        if k[0] == 'eq' and v:
            for a, b in ((k[1], k[2]), (k[2], k[1])):
                if val.get(('in', a, b)) is False:
                    return False
    return True


MG_REF_ATOMS = [
    ('eq', 'golden.exit', 'run.exit'),
    ('truthy', 'ignore_out'),
    ('truthy', 'ignore_err'),
    ('truthy', 'match_out'),
    ('truthy', 'match_err'),
    ('in', 'match_out', 'run.out'),
    ('in', 'match_err', 'run.err'),
    ('eq', 'golden.out', 'run.out'),
    ('eq', 'golden.err', 'run.err'),
]


def rule_r1(chk, prog):
    chk.rule('C09.R1',
             'matches_golden == documented rule on all atom valuations')
    m = prog.mod('checker')
    f = m.func('matches_golden')
    bf = BoolFn(f, mg_atomizer(f), ignore_expr=_is_logging)
    extra = [k for k in bf.atom_keys if k not in MG_REF_ATOMS]
    missing = [k for k in MG_REF_ATOMS if k not in bf.atom_keys]
    n = 0
    bad = []
    for val, res in bf.table(extra_atoms=MG_REF_ATOMS):
        if not _consistent(val):
            continue
        n += 1
        ref = mg_reference(val)
        if bool(res) != bool(ref):
            bad.append((val, res, ref))
    chk.extra['C09.R1_valuations'] = n
    chk.extra['C09.R1_atoms'] = [list(k) for k in bf.atom_keys]
    chk.obligations += n - 1  # the instance() below adds one
    chk.discharged += (n - len(bad)) - (0 if bad else 1)
    ok = not bad
    arg = (f'{n} valuations of {len(bf.atom_keys)} extracted + reference '
           f'atoms enumerated; {len(bad)} disagree')
    chk.instance('C09.R1', 'checker.matches_golden', 'decision structure',
                 ok, arg, nontrivial=True, loc=m.loc(f), sample=True)
    if bad:
        val, res, ref = bad[0]
        t = ', '.join(f'{"/".join(k)}={int(b)}' for k, b in val.items())
        chk.violation(
            'C09.R1', 'checker.matches_golden', 'decision structure',
            f'{len(bad)}/{n} valuations disagree with the documented rule; '
            f'e.g. [{t}] -> code {bool(res)}, documented {bool(ref)}'
            + (f'; unexpected atoms {extra}' if extra else '')
            + (f'; atoms never consulted {missing}' if missing else ''),
            loc=m.loc(f),
            detail={'first_disagreement': {"/".join(k): v
                                           for k, v in val.items()}})
    return bf


# --------------------------------------------------------------------- R2
def _opt_formula_atomizer(e):
    o = opt_read(e)
    if o is not None:
        return (('opt', o), True)
    raise AnalysisError(f'check(): "{unparse(e)}" is not an option read')


def _classify_execute(call, prog, m):
    """execute(cmd, filename, timeout) -> (cmd option, filename text,
    timeout option)"""
    f = m.func('execute')
    b = bind_args(call, f)
    ps = params_of(f)
    if len(ps) != 3:
        raise AnalysisError('execute() no longer has 3 parameters')
    cmd = opt_read(b.get(ps[0]))
    to = opt_read(b.get(ps[2]))
    fn = b.get(ps[1])
    return cmd, (unparse(fn) if fn is not None else None), to


def rule_r2(chk, prog):
    chk.rule('C09.R2', 'check(): wiring of options/golden records/commands '
             'to the two comparisons, result is the conjunction')
    m = prog.mod('checker')
    f = m.func('check')
    mgf = m.func('matches_golden')
    mg_params = params_of(mgf)
    fparams = params_of(f)
    if len(fparams) != 1:
        raise AnalysisError('check() no longer takes exactly the file name')
    calls = {}

    def atomizer(e):
        o = opt_read(e)
        if o is not None:
            return (('opt', o), True)
        if isinstance(e, ast.Call) and call_name(e) == 'matches_golden':
            b = bind_args(e, mgf)
            key = ('mg', ) + tuple(
                unparse(b[p]) if p in b else '<missing>' for p in mg_params)
            calls[key] = b
            return (key, True)
        raise AnalysisError(
            f'check(): expression "{unparse(e)}" is neither an option read '
            'nor a matches_golden call')

    def ignore(e):
        return _is_logging(e)

    bf = BoolFn(f, atomizer, ignore_expr=ignore)
    mgkeys = [k for k in bf.atom_keys if k[0] == 'mg']
    # classify the comparisons by the command they run
    roles = {}
    expected = {
        'main': dict(golden='__GOLDEN', cmd='cmd', timeout='timeout',
                     io={'ignore_output', 'ignore_out'},
                     ie={'ignore_output', 'ignore_err'},
                     mo='match_out', me='match_err'),
        'cc': dict(golden='__GOLDEN_CC', cmd='cmd_cc', timeout='timeout_cc',
                   io={'ignore_output_cc'}, ie={'ignore_output_cc'},
                   mo='match_out_cc', me='match_err_cc'),
    }
    for key in mgkeys:
        b = calls[key]
        run = b.get(mg_params[1])
        where = 'checker.check'
        if not (isinstance(run, ast.Call) and call_name(run) == 'execute'):
            chk.check('C09.R2', where, key[2], False,
                      'second argument of matches_golden is not the result '
                      'of execute(...)', loc=m.loc(f))
            continue
        cmd, fn, to = _classify_execute(run, prog, m)
        role = {'cmd': 'main', 'cmd_cc': 'cc'}.get(cmd)
        if role is None:
            chk.check('C09.R2', where, unparse(run), False,
                      f'execute() runs option "{cmd}", neither cmd nor '
                      'cmd_cc', loc=m.loc(run))
            continue
        if role in roles:
            chk.check('C09.R2', where, unparse(run), False,
                      f'two comparisons run the {role} command',
                      loc=m.loc(run))
            continue
        roles[role] = key
        exp = expected[role]
        # obligations per argument
        chk.check('C09.R2', where, f'{role}: file name {fn}',
                  fn == fparams[0],
                  f'{role} command is run on "{fn}", not on the file under '
                  f'test "{fparams[0]}"', loc=m.loc(run), nontrivial=True)
        chk.check('C09.R2', where, f'{role}: timeout {to}',
                  to == exp['timeout'],
                  f'{role} command is run with option "{to}", documented: '
                  f'"{exp["timeout"]}"', loc=m.loc(run), nontrivial=True)
        g = b.get(mg_params[0])
        gname = unparse(g) if g is not None else None
        chk.check('C09.R2', where, f'{role}: golden record {gname}',
                  gname == exp['golden'],
                  f'{role} comparison uses golden record "{gname}", must be '
                  f'"{exp["golden"]}"', loc=m.loc(f), nontrivial=True)
        for pname, want, label in ((mg_params[2], exp['io'], 'stdout'),
                                   (mg_params[3], exp['ie'], 'stderr')):
            e = b.get(pname)
            ok = False
            msg = ''
            if e is None:
                msg = f'{role}: ignore flag for {label} missing'
            else:
                atoms = expr_atoms(e, _opt_formula_atomizer)
                opts = {a[1] for a in atoms}
                allopts = sorted(opts | want)
                ok = True
                tmp = BoolFn.__new__(BoolFn)
                tmp.atomizer = _opt_formula_atomizer
                for bits in itertools.product((False, True),
                                              repeat=len(allopts)):
                    val = {('opt', o): bit for o, bit in zip(allopts, bits)}
                    got = tmp._ev(e, val)
                    ref = any(val[('opt', o)] for o in want)
                    chk.obligations += 1
                    if got == ref:
                        chk.discharged += 1
                    else:
                        ok = False
                msg = (f'{role}: "{unparse(e)}" decides whether {label} is '
                       f'ignored; documented: any of {sorted(want)}')
            chk.check('C09.R2', where, f'{role}: ignore-{label} := '
                      f'{unparse(e) if e is not None else None}', ok, msg,
                      loc=m.loc(f), nontrivial=True)
        for pname, want, label in ((mg_params[4], exp['mo'], 'stdout'),
                                   (mg_params[5], exp['me'], 'stderr')):
            e = b.get(pname)
            got = opt_read(e) if e is not None else None
            chk.check('C09.R2', where, f'{role}: match-{label} := {got}',
                      got == want,
                      f'{role}: match string for {label} is option "{got}", '
                      f'documented "{want}"', loc=m.loc(f), nontrivial=True)
    for role in ('main', 'cc'):
        if role not in roles:
            chk.check('C09.R2', 'checker.check', f'{role} comparison', False,
                      f'no matches_golden call for the {role} command found',
                      loc=m.loc(f))
    if 'main' in roles and 'cc' in roles:
        # structure: MG_main and (not cmd_cc or MG_cc)
        n = 0
        bad = []
        for val, res in bf.table():
            n += 1
            ref = val[roles['main']] and (
                (not val.get(('opt', 'cmd_cc'), False)) or val[roles['cc']])
            chk.obligations += 1
            if bool(res) == bool(ref):
                chk.discharged += 1
            else:
                bad.append((val, res, ref))
        other = [k for k in bf.atom_keys
                 if k[0] == 'opt' and k[1] != 'cmd_cc']
        ok = not bad
        msg = (f'{len(bad)}/{n} valuations of (main matches, cross-check '
               'configured, cross-check matches) give a verdict different '
               'from main ∧ (¬cc ∨ cc-matches)')
        if bad:
            val, res, ref = bad[0]
            short = {('main-matches' if k == roles['main'] else
                      'cc-matches' if k == roles['cc'] else k[1]): v
                     for k, v in val.items()}
            msg += f'; e.g. {short} -> code {bool(res)}, documented {bool(ref)}'
        chk.check('C09.R2', 'checker.check', 'verdict structure', ok, msg,
                  loc=m.loc(f), nontrivial=True)
        chk.extra['C09.R2_valuations'] = n


# --------------------------------------------------------------------- R3
def rule_r3(chk, prog):
    chk.rule('C09.R3', 'golden records assigned only in do_golden_runs from '
             'execute(matching cmd, infile, matching timeout)')
    m = prog.mod('checker')
    want = {
        '__GOLDEN': ('cmd', 'infile', 'timeout'),
        '__GOLDEN_CC': ('cmd_cc', 'infile', 'timeout_cc')
    }
    ex = m.func('execute')
    ps = params_of(ex)
    seen = {k: 0 for k in want}
    for q, f in m.funcs.items():
        gl = global_decls(f)
        for st in walk_no_nested(f):
            if not isinstance(st, (ast.Assign, ast.AugAssign)):
                continue
            targets = st.targets if isinstance(st, ast.Assign) else [
                st.target
            ]
            for t in targets:
                for nm in ast.walk(t):
                    if isinstance(nm, ast.Name) and nm.id in want and \
                            nm.id in gl:
                        ok = False
                        msg = ''
                        if q != 'do_golden_runs':
                            msg = (f'{nm.id} is assigned in {q}; only '
                                   'do_golden_runs may set the golden record')
                        elif not (isinstance(st, ast.Assign) and isinstance(
                                st.value, ast.Call) and call_name(
                                    st.value) == 'execute'):
                            msg = f'{nm.id} is not assigned from execute(...)'
                        else:
                            b = bind_args(st.value, ex)
                            got = tuple(
                                opt_read(b.get(p)) if p in b else None
                                for p in ps)
                            ok = got == want[nm.id]
                            msg = (f'{nm.id} := execute{got}; documented '
                                   f'execute{want[nm.id]}')
                            seen[nm.id] += 1
                        chk.check('C09.R3', f'checker.{q}', st, ok, msg,
                                  loc=m.loc(st), nontrivial=True)
    for k, c in seen.items():
        if c == 0:
            chk.check('C09.R3', 'checker.do_golden_runs', k, False,
                      f'no assignment of {k} from execute() found in '
                      'do_golden_runs', loc=m.loc(m.func('do_golden_runs')))
    # nobody else writes checker.__GOLDEN via attribute
    for om in prog.pkg_modules():
        for n in ast.walk(om.tree):
            if isinstance(n, ast.Attribute) and isinstance(
                    n.ctx, ast.Store) and 'GOLDEN' in n.attr:
                chk.check('C09.R3', om.name, n, False,
                          'golden record written from outside '
                          'do_golden_runs', loc=om.loc(n))
    # both comparisons read the module-level records (no shadowing locals)
    chkf = m.func('check')
    local = {n.id for n in walk_no_nested(chkf)
             if isinstance(n, ast.Name) and isinstance(n.ctx, ast.Store)}
    chk.check('C09.R3', 'checker.check', 'golden names are module globals',
              not (local & set(want)),
              'check() rebinds a golden record name locally', loc=m.loc(chkf))


# --------------------------------------------------------------------- R4
def rule_r4(chk, prog):
    chk.rule('C09.R4', 'every options.args().X read in the package is a '
             'declared option of the expected kind')
    table = options_table.option_table(prog)
    reg = options_table.registry(prog)
    toggle_dests = set()
    for grp, (modname, d) in reg.items():
        toggle_dests.add(f'mutators_{grp}')
        for cls, opt in d.items():
            toggle_dests.add('mutator_' + opt.replace('-', '_'))
    reads = {}
    for m in list(prog.modules.values()):
        for n in ast.walk(m.tree):
            o = opt_read(n)
            if o is not None and isinstance(n.ctx, ast.Load):
                reads.setdefault(o, []).append(m.loc(n))
    chk.floor('C09.R4', 'distinct options.args().X reads', len(reads), 20)
    for o, locs in sorted(reads.items()):
        ok = o in table or o in toggle_dests
        chk.check('C09.R4', 'package', f'options.args().{o}', ok,
                  f'option attribute "{o}" is read at {locs[0]} but no '
                  'add_argument declares it (AttributeError at run time, or '
                  'a permissive default)', loc=locs[0])
    kinds = {
        'ignore_output': 'store_true', 'ignore_out': 'store_true',
        'ignore_err': 'store_true', 'ignore_output_cc': 'store_true',
        'unchecked': 'store_true'
    }
    for o, act in kinds.items():
        e = table.get(o)
        ok = e is not None and e['action'] == act and e['default'] in (
            None, False)
        chk.check('C09.R4', 'options.parse_options', f'--{o}', ok,
                  f'option {o} must be a store_true flag defaulting to '
                  f'False, found {e}', nontrivial=False)
    for o in ('match_out', 'match_err', 'match_out_cc', 'match_err_cc'):
        e = table.get(o)
        ok = e is not None and e['action'] in (None, 'store') and \
            e['type'] in (None, 'str') and e['default'] is None and \
            e['nargs'] is None
        chk.check('C09.R4', 'options.parse_options', f'--{o}', ok,
                  f'option {o} must be a plain string option with default '
                  f'None, found {e}')
    for o, ty in (('timeout', 'float'), ('timeout_cc', 'float')):
        e = table.get(o)
        ok = e is not None and e['type'] == ty and e['default'] is None
        chk.check('C09.R4', 'options.parse_options', f'--{o}', ok,
                  f'option {o} must be float-valued with default None '
                  f'(the default limit is derived from the golden run), '
                  f'found {e}')
    e = table.get('cmd')
    ok = e is not None and e['nargs'] == 'argparse.REMAINDER'
    chk.check('C09.R4', 'options.parse_options', 'cmd', ok,
              'positional "cmd" must collect the REMAINDER of the command '
              f'line (original arguments in order), found {e}')


# --------------------------------------------------------------------- R5
def rule_r5(chk, prog):
    chk.rule('C09.R5', '--unchecked: constant record returned before any '
             'process is started')
    m = prog.mod('checker')
    f = m.func('execute')
    cfg = cfg_of(f)
    IN, OUT = cfg.guard_facts()
    popens = [c for c in calls_in(f) if (call_name(c) or '').endswith(
        'Popen') or (call_name(c) or '') in (
            'subprocess.run', 'subprocess.call', 'subprocess.check_output',
            'subprocess.check_call', 'os.system')]
    chk.floor('C09.R5', 'process-spawning calls in checker.execute',
              len(popens), 1)
    key = ('options.args().unchecked', False)
    for c in popens:
        n = expr_owner_node(cfg, c)
        facts = IN.get(n)
        ok = facts is not None and key in facts
        chk.check('C09.R5', 'checker.execute', c, ok,
                  'process start is not dominated by "unchecked is false"',
                  loc=m.loc(c), nontrivial=True,
                  argument='must-fact (options.args().unchecked, False) '
                  'holds at the call')
    # the unchecked return value is a constant record
    rets = []
    for n in cfg.nodes:
        if n.kind == 'stmt' and isinstance(n.ast, ast.Return):
            facts = IN.get(n)
            if facts is not None and ('options.args().unchecked',
                                      True) in facts:
                rets.append(n)
    chk.check('C09.R5', 'checker.execute', 'return under unchecked',
              len(rets) >= 1, 'no return statement under the unchecked test',
              loc=m.loc(f))
    for n in rets:
        v = n.ast.value
        ok = isinstance(v, ast.Call) and call_name(v) == 'RunInfo' and all(
            isinstance(a, ast.Constant) for a in v.args) and all(
                isinstance(k.value, ast.Constant) for k in v.keywords)
        chk.check('C09.R5', 'checker.execute', n.ast, ok,
                  'the record returned under --unchecked is not a constant '
                  'RunInfo (golden and candidates would not compare equal)',
                  loc=m.loc(n.ast), nontrivial=True)
        if ok and len(v.args) >= 3:
            # exit code equal, streams equal => every candidate accepted
            pass


# --------------------------------------------------------------------- R6
def _argv_is_cmd_plus_file(a0, cmd_p, file_p):
    """cmd + [filename] | list(cmd) + [filename] | [*cmd, filename]"""

    def is_cmd(e):
        if isinstance(e, ast.Name) and e.id == cmd_p:
            return True
        return (isinstance(e, ast.Call) and call_name(e) in ('list', 'tuple')
                and len(e.args) == 1 and is_cmd(e.args[0]))

    def is_file(e):
        return isinstance(e, ast.Name) and e.id == file_p

    if isinstance(a0, ast.BinOp) and isinstance(a0.op, ast.Add):
        return (is_cmd(a0.left) and isinstance(a0.right, (ast.List,
                                                          ast.Tuple))
                and len(a0.right.elts) == 1 and is_file(a0.right.elts[0]))
    if isinstance(a0, ast.List) and len(a0.elts) == 2:
        return (isinstance(a0.elts[0], ast.Starred)
                and is_cmd(a0.elts[0].value) and is_file(a0.elts[1]))
    return False


def rule_r6(chk, prog):
    chk.rule('C09.R6', 'command invoked as original arguments + exactly one '
             'file name with the input file extension')
    m = prog.mod('checker')
    f = m.func('execute')
    ps = params_of(f)
    cmd_p, file_p = ps[0], ps[1]
    popens = [c for c in calls_in(f) if (call_name(c) or '').endswith('Popen')]
    chk.floor('C09.R6', 'Popen call sites in checker.execute', len(popens), 1)
    for c in popens:
        a0 = c.args[0] if c.args else kw(c, 'args')
        a0 = expand_locals(f, a0) if a0 is not None else None
        ok = _argv_is_cmd_plus_file(a0, cmd_p, file_p)
        chk.check('C09.R6', 'checker.execute', c, ok,
                  f'argv is "{unparse(a0)}", expected "{cmd_p} + '
                  f'[{file_p}]" (fresh list: original arguments, then one '
                  'file name)', loc=m.loc(c), nontrivial=True)
        sh = kw(c, 'shell')
        chk.check('C09.R6', 'checker.execute', f'shell= of {unparse(c.func)}',
                  sh is None or is_const(sh, False),
                  'Popen with shell=True re-tokenises the command',
                  loc=m.loc(c))
    # the command list and the file name are not modified inside execute
    for st in walk_no_nested(f):
        bad = None
        if isinstance(st, (ast.Assign, ast.AugAssign, ast.AnnAssign)):
            ts = st.targets if isinstance(st, ast.Assign) else [st.target]
            for t in ts:
                for nm in ast.walk(t):
                    if isinstance(nm, ast.Name) and nm.id in (cmd_p, file_p):
                        bad = st
        if isinstance(st, ast.Call) and isinstance(st.func, ast.Attribute) \
                and isinstance(st.func.value, ast.Name) \
                and st.func.value.id == cmd_p and st.func.attr in (
                    'append', 'extend', 'insert', 'pop', 'remove', 'clear',
                    'sort', 'reverse'):
            bad = st
        if bad is not None:
            chk.check('C09.R6', 'checker.execute', bad, False,
                      'execute() modifies its command/file-name argument: '
                      'the list is shared with options.args().cmd, so later '
                      'invocations see extra arguments', loc=m.loc(bad),
                      nontrivial=True)
    chk.instance('C09.R6', 'checker.execute', 'cmd/filename parameters are '
                 'not rebound or mutated', True, 'no store/mutating call on '
                 'the parameters in the function body', nontrivial=True)
    # candidate file name: ends with the extension, extension from infile
    t = prog.mod('tmpfiles')
    g = t.func('get_tmp_filename')
    # the extension: the module global(s) bound to splitext(infile)[1]
    extn = set()
    for q_, fn_ in t.funcs.items():
        gl_ = global_decls(fn_)
        for st_ in walk_no_nested(fn_):
            if isinstance(st_, ast.Assign):
                for tg_ in st_.targets:
                    v_ = st_.value
                    if isinstance(tg_, ast.Name) and tg_.id in gl_ and \
                            isinstance(v_, ast.Subscript) and isinstance(
                                v_.value, ast.Call) and call_name(
                                    v_.value) == 'os.path.splitext':
                        extn.add(tg_.id)
    extn = extn or {'__FILEEXT'}
    rets = [n for n in walk_no_nested(g) if isinstance(n, ast.Return)]
    ok = False
    why = 'no return'
    for r in rets:
        v = expand_locals(g, r.value)
        if isinstance(v, ast.Call) and call_name(v) == 'os.path.join' and \
                v.args:
            last = v.args[-1]
            if isinstance(last, ast.Call) and isinstance(
                    last.func, ast.Attribute) and \
                    last.func.attr == 'format' and isinstance(
                        last.func.value, ast.Constant) and isinstance(
                            last.func.value.value, str) and \
                    last.func.value.value.endswith('{}') and last.args and \
                    unparse(last.args[-1]) in extn:
                ok = True
                continue
            if isinstance(last, ast.JoinedStr) and last.values and isinstance(
                    last.values[-1], ast.FormattedValue) and isinstance(
                        last.values[-1].value, ast.Name) and \
                    last.values[-1].value.id in extn and \
                    last.values[-1].format_spec is None and \
                    last.values[-1].conversion == -1:
                ok = True
            elif isinstance(last, ast.BinOp) and isinstance(
                    last.op, ast.Add) and isinstance(
                        last.right, ast.Name) and last.right.id in extn:
                ok = True
            else:
                why = f'last path component "{unparse(last)}" does not end ' \
                      'with the extension value'
        else:
            why = f'"{unparse(v)}" is not os.path.join(..., <name><ext>)'
        # the stem has no "." of its own: os.path.splitext(<stem><ext>)[1]
        # is <ext> for every extension, the empty one included (the
        # extension value carries its dot)
        if ok and isinstance(v, ast.Call) and v.args:
            consts = [x.value for x in ast.walk(v.args[-1])
                      if isinstance(x, ast.Constant) and isinstance(
                          x.value, str)]
            if any('.' in c_ for c_ in consts):
                ok = False
                why = (f'the stem of the candidate file name contains "." '
                       f'({[c_ for c_ in consts if "." in c_][0]!r}): for '
                       'an input without extension the candidates end in '
                       '"." (or get an extension of their own) - a command '
                       'that chooses its input language by extension does '
                       'not see the golden behaviour on the identical '
                       'candidate')
    chk.check('C09.R6', 'tmpfiles.get_tmp_filename', 'file name ends with '
              '__FILEEXT', ok, why, loc=t.loc(g), nontrivial=True)
    # __FILEEXT assigned only from splitext(infile)[1]
    cnt = 0
    for q, fn in t.funcs.items():
        gl = global_decls(fn)
        for st in walk_no_nested(fn):
            if isinstance(st, ast.Assign):
                for tg in st.targets:
                    if isinstance(tg, ast.Name) and tg.id in extn and \
                            tg.id in gl:
                        v = st.value

                        def is_infile(e, depth=0):
                            """every value e can take is the input-file
                            option (locals, and parameters through all call
                            sites; a None default that is replaced under an
                            ``is None`` test does not count)"""
                            if opt_read(e) == 'infile':
                                return True
                            if not isinstance(e, ast.Name) or depth > 2:
                                return False
                            vals = [s2.value for s2 in walk_no_nested(fn)
                                    if isinstance(s2, ast.Assign) and any(
                                        isinstance(t2, ast.Name)
                                        and t2.id == e.id
                                        for t2 in s2.targets)]
                            ps_ = params_of(fn)
                            if e.id in ps_:
                                ix = ps_.index(e.id)
                                sites = 0
                                for om in prog.pkg_modules():
                                    for c2 in ast.walk(om.tree):
                                        if isinstance(c2, ast.Call) and (
                                                call_name(c2) or '').split(
                                                    '.')[-1] == fn.name and (
                                                        om is t or (call_name(
                                                            c2) or ''
                                                        ).startswith(
                                                            t.name + '.')):
                                            sites += 1
                                            a2 = None
                                            if len(c2.args) > ix:
                                                a2 = c2.args[ix]
                                            for k2 in c2.keywords:
                                                if k2.arg == e.id:
                                                    a2 = k2.value
                                            if a2 is not None:
                                                if opt_read(a2) != 'infile':
                                                    return False
                                            elif not vals:
                                                return False
                                if not sites and not vals:
                                    return False
                            elif not vals:
                                return False
                            return all(is_infile(x, depth + 1) for x in vals)

                        good = (isinstance(v, ast.Subscript) and isinstance(
                            v.value, ast.Call) and call_name(
                                v.value) == 'os.path.splitext' and len(
                                    v.value.args) == 1 and is_infile(
                                        v.value.args[0])
                                and is_const(v.slice, 1))
                        cnt += 1
                        chk.check('C09.R6', f'tmpfiles.{q}', st, good,
                                  'extension is not os.path.splitext('
                                  'options.args().infile)[1]', loc=t.loc(st),
                                  nontrivial=True)
    chk.check('C09.R6', 'tmpfiles.init', '__FILEEXT assigned', cnt >= 1,
              'no assignment of the extension found', loc=t.loc(g))
    # check_exprs: same name written and checked
    ce = m.func('check_exprs')
    names = {}
    wr = [c for c in calls_in(ce)
          if (call_name(c) or '').endswith('write_smtlib_for_checking')]
    ck = [c for c in calls_in(ce) if call_name(c) == 'check']
    ok = len(wr) == 1 and len(ck) == 1 and wr[0].args and ck[0].args and \
        isinstance(wr[0].args[0], ast.Name) and isinstance(
            ck[0].args[0], ast.Name) and wr[0].args[0].id == ck[0].args[0].id
    src_ok = False
    if ok:
        nm = wr[0].args[0].id
        defs = [st for st in walk_no_nested(ce) if isinstance(st, ast.Assign)
                and any(isinstance(t, ast.Name) and t.id == nm
                        for t in st.targets)]
        src_ok = len(defs) == 1 and isinstance(
            defs[0].value, ast.Call) and call_name(
                defs[0].value) == 'tmpfiles.get_tmp_filename'
    chk.check('C09.R6', 'checker.check_exprs', 'file written == file checked',
              ok and src_ok,
              'the candidate is not written to and checked from the one '
              'name returned by tmpfiles.get_tmp_filename()', loc=m.loc(ce),
              nontrivial=True)
    # original arguments: only element 0 of cmd / cmd_cc is ever replaced
    for om in prog.pkg_modules():
        for st in ast.walk(om.tree):
            if isinstance(st, (ast.Assign, ast.AugAssign)):
                ts = st.targets if isinstance(st, ast.Assign) else [st.target]
                for tg in ts:
                    if isinstance(tg, ast.Subscript) and opt_read(
                            tg.value) in ('cmd', 'cmd_cc'):
                        chk.check('C09.R6', om.name, st,
                                  is_const(tg.slice, 0),
                                  'an argument of the command other than the '
                                  'executable is rewritten', loc=om.loc(st),
                                  nontrivial=True)
                    elif opt_read(tg) in ('cmd', ):
                        chk.check('C09.R6', om.name, st, False,
                                  'the command list is replaced',
                                  loc=om.loc(st))
            if isinstance(st, ast.Call) and isinstance(
                    st.func, ast.Attribute) and opt_read(
                        st.func.value) in ('cmd', 'cmd_cc') and \
                    st.func.attr in ('append', 'extend', 'insert', 'pop',
                                     'remove', 'clear', 'sort', 'reverse'):
                chk.check('C09.R6', om.name, st, False,
                          'the command list is mutated', loc=om.loc(st))


TEXT_MODE_KW = ('text', 'universal_newlines', 'encoding', 'errors')


def rule_r7(chk, prog):
    chk.rule('C09.R7', 'the streams that are compared are the bytes the '
             'command wrote, decoded once: the pipes are binary (no text '
             'mode / newline translation) and the record holds '
             '<communicate result>.decode()')
    m = prog.mod('checker')
    f = m.func('execute')
    popens = [c for c in calls_in(f) if (call_name(c) or '').endswith(
        'Popen') or (call_name(c) or '') in (
            'subprocess.run', 'subprocess.check_output', 'subprocess.call',
            'subprocess.check_call')]
    n = 0
    for c in popens:
        kws = {k.arg: k.value for k in c.keywords if k.arg}
        if isinstance(kws.get('capture_output'), ast.Constant) and \
                kws['capture_output'].value is True:
            pipe = ast.parse('subprocess.PIPE', mode='eval').body
            kws.setdefault('stdout', pipe)
            kws.setdefault('stderr', pipe)
        # keyword dictionaries passed with ** (one level)
        for k in c.keywords:
            if k.arg is None and isinstance(k.value, ast.Name):
                for st in ast.walk(f):
                    if isinstance(st, ast.Assign) and unparse(
                            st.targets[0]) == k.value.id and isinstance(
                                st.value, ast.Dict):
                        for kk, vv in zip(st.value.keys, st.value.values):
                            if isinstance(kk, ast.Constant):
                                kws[kk.value] = vv
                    if isinstance(st, ast.Assign) and unparse(
                            st.targets[0]) == k.value.id and isinstance(
                                st.value, ast.Call) and call_name(
                                    st.value) == 'dict' and \
                            not st.value.args:
                        for k2 in st.value.keywords:
                            if k2.arg:
                                kws[k2.arg] = k2.value
                    if isinstance(st, ast.Assign) and isinstance(
                            st.targets[0], ast.Subscript) and unparse(
                                st.targets[0].value) == k.value.id and \
                            isinstance(st.targets[0].slice, ast.Constant):
                        kws[st.targets[0].slice.value] = st.value
        n += 1
        bad = [k for k in TEXT_MODE_KW if k in kws and not (
            isinstance(kws[k], ast.Constant) and kws[k].value in (
                None, False))]
        chk.check('C09.R7', 'checker.execute', f'binary pipes: '
                  f'{unparse(c)[:50]}', not bad,
                  f'the command\'s pipes are opened in text mode ({bad}): '
                  'universal-newline translation turns CR LF and CR in its '
                  'output into LF, so a candidate whose stream differs from '
                  'the golden stream only in line terminators is accepted '
                  'where equality is documented', loc=m.loc(c),
                  nontrivial=True)
        # both streams are captured, whatever the options say
        for stream in ('stdout', 'stderr'):
            v = kws.get(stream)
            vals = []
            if v is not None:
                ev = expand_locals(f, v)
                work = [ev]
                while work:
                    x = work.pop()
                    if isinstance(x, ast.IfExp):
                        work += [x.body, x.orelse]
                    elif isinstance(x, ast.Name):
                        ds = [st.value for st in ast.walk(f) if isinstance(
                            st, ast.Assign) and any(
                                isinstance(t, ast.Name) and t.id == x.id
                                for t in st.targets)]
                        if ds:
                            work += ds
                        else:
                            vals.append(unparse(x))
                    else:
                        vals.append(unparse(x))
            ok = bool(vals) and all(t in ('subprocess.PIPE', 'PIPE')
                                    for t in vals)
            chk.check('C09.R7', 'checker.execute', f'{stream} captured: '
                      f'{unparse(c)[:40]}', ok,
                      f'{stream} of the command is '
                      f'{sorted(set(vals)) or "not redirected"}, not always '
                      'a pipe: what is compared with the golden stream is '
                      'then not what the command wrote (execute() also runs '
                      'the cross-check command and both golden runs, which '
                      'have their own --ignore-output / --match options)',
                      loc=m.loc(c), nontrivial=True)
    chk.floor('C09.R7', 'Popen call sites', n, 1)
    # the record of a finished run
    comm = None
    for st in ast.walk(f):
        if isinstance(st, ast.Assign) and isinstance(
                st.value, ast.Call) and isinstance(
                    st.value.func, ast.Attribute) and \
                st.value.func.attr == 'communicate' and isinstance(
                    st.targets[0], ast.Tuple) and len(
                        st.targets[0].elts) == 2:
            comm = [unparse(x) for x in st.targets[0].elts]
    if comm is None:
        raise AnalysisError('checker.execute: "out, err = '
                            '<proc>.communicate(...)" not found')
    nrec = 0
    for r in ast.walk(f):
        if isinstance(r, ast.Return) and isinstance(
                r.value, ast.Call) and call_name(r.value) == 'RunInfo':
            v = r.value
            vals = list(v.args) + [None] * 4
            for k in v.keywords:
                if k.arg in ('exit', 'out', 'err', 'runtime'):
                    vals[('exit', 'out', 'err', 'runtime').index(
                        k.arg)] = k.value
            out, err = vals[1], vals[2]
            if out is None or err is None:
                continue
            if all(isinstance(x, ast.Constant) for x in (out, err)):
                continue  # unchecked / expired records
            nrec += 1
            ok = unparse(expand_locals(f, out)) == f'{comm[0]}.decode()' and \
                unparse(expand_locals(f, err)) == f'{comm[1]}.decode()'
            chk.check('C09.R7', 'checker.execute', r, ok,
                      'the record of a finished run is not (status, '
                      f'{comm[0]}.decode(), {comm[1]}.decode(), time): the '
                      'compared streams are not the command\'s output '
                      'decoded once', loc=m.loc(r), nontrivial=True)
    chk.floor('C09.R7', 'records of finished runs', nrec, 1)


# --------------------------------------------------------------------- R8
def _name_template(fn, e, mod, depth=0):
    """A path expression as a list of pieces ('c', text) | ('v', text)."""
    if depth > 6:
        return [('v', unparse(e))]
    if isinstance(e, ast.Constant) and isinstance(e.value, str):
        return [('c', e.value)]
    if isinstance(e, ast.JoinedStr):
        out = []
        for v in e.values:
            if isinstance(v, ast.Constant):
                out.append(('c', str(v.value)))
            else:
                out.append(('v', unparse(v.value)))
        return out
    if isinstance(e, ast.BinOp) and isinstance(e.op, ast.Add):
        return _name_template(fn, e.left, mod, depth + 1) + _name_template(
            fn, e.right, mod, depth + 1)
    if isinstance(e, ast.Call) and call_name(e) == 'os.path.join':
        out = []
        for k, a in enumerate(e.args):
            if k:
                out.append(('c', '/'))
            out.extend(_name_template(fn, a, mod, depth + 1))
        return out
    if isinstance(e, ast.Call) and isinstance(
            e.func, ast.Attribute) and e.func.attr == 'format' and \
            isinstance(e.func.value, ast.Constant) and isinstance(
                e.func.value.value, str) and not e.keywords:
        parts = e.func.value.value.split('{}')
        if len(parts) == len(e.args) + 1 and '{' not in ''.join(parts):
            out = []
            for k, c in enumerate(parts):
                if c:
                    out.append(('c', c))
                if k < len(e.args):
                    out.append(('v', unparse(e.args[k])))
            return out
    if isinstance(e, ast.Name):
        # a local with one definition, or a module global set in one place
        defs = []
        if fn is not None:
            defs = [st.value for st in walk_no_nested(fn)
                    if isinstance(st, ast.Assign) and any(
                        isinstance(t, ast.Name) and t.id == e.id
                        for t in st.targets)
                    and e.id not in global_decls(fn)]
        if not defs:
            for q, g in mod.funcs.items():
                if e.id in global_decls(g):
                    for st in walk_no_nested(g):
                        if isinstance(st, ast.Assign) and any(
                                isinstance(t, ast.Name) and t.id == e.id
                                for t in st.targets):
                            defs.append((g, st.value))
            defs = [d for d in defs if not (isinstance(
                d[1], ast.Constant) and d[1].value is None)]
            if len(defs) == 1:
                return _name_template(defs[0][0], defs[0][1], mod, depth + 1)
            return [('v', e.id)]
        if len(defs) == 1:
            return _name_template(fn, defs[0], mod, depth + 1)
    return [('v', unparse(e))]


def _merge(t):
    out = []
    for k, v in t:
        if k == 'c' and out and out[-1][0] == 'c':
            out[-1] = ('c', out[-1][1] + v)
        elif not (k == 'c' and v == ''):
            out.append((k, v))
    return out


def provably_distinct(a, b):
    """Two name templates denote different strings for every value of
    their variable parts (sufficient conditions only)."""
    a, b = _merge(a), _merge(b)
    # the same leading / trailing pieces contribute the same text
    while a and b and a[0] == b[0]:
        a, b = a[1:], b[1:]
    while a and b and a[-1] == b[-1]:
        a, b = a[:-1], b[:-1]
    if not a and not b:
        return False
    if all(k == 'c' for k, _ in a) and all(k == 'c' for k, _ in b):
        return a != b
    pa = a[0][1] if a and a[0][0] == 'c' else ''
    pb = b[0][1] if b and b[0][0] == 'c' else ''
    if not pa.startswith(pb) and not pb.startswith(pa):
        return True
    sa = a[-1][1] if a and a[-1][0] == 'c' else ''
    sb = b[-1][1] if b and b[-1][0] == 'c' else ''
    if not sa.endswith(sb) and not sb.endswith(sa):
        return True
    va = [v for k, v in a if k == 'v']
    vb = [v for k, v in b if k == 'v']
    if va == vb:
        la = sum(len(v) for k, v in a if k == 'c')
        lb = sum(len(v) for k, v in b if k == 'c')
        if la != lb:
            return True
    return False


def rule_r8(chk, prog):
    chk.rule('C09.R8', 'the private copies of the command and of the '
             'cross-check command, and the candidate file, have names that '
             'differ for every option value: each command runs its own '
             'executable')
    t = prog.mod('tmpfiles')
    dests = []
    from ..astutil import resolve_near

    def src_option(fn, c):
        """'cmd' / 'cmd_cc' if the first argument of the copy is (an
        element of) that option, followed through nearest definitions"""
        a0 = resolve_near(fn, c.args[0], c)
        if isinstance(a0, ast.Subscript):
            a0 = resolve_near(fn, a0.value, c)
        return opt_read(a0)

    for q, fn in t.funcs.items():
        for c in calls_in(fn):
            if (call_name(c) or '') in ('shutil.copy', 'shutil.copy2',
                                        'shutil.copyfile') and len(
                                            c.args) >= 2 and src_option(
                                                fn, c) in ('cmd', 'cmd_cc'):
                which = src_option(fn, c)
                dests.append((which, _name_template(fn, c.args[1], t), c,
                              q))
    chk.floor('C09.R8', 'copies of command executables', len(dests), 2)
    g = t.func('get_tmp_filename')
    rets = [n for n in walk_no_nested(g) if isinstance(n, ast.Return)]
    if len(rets) == 1:
        dests.append(('candidate file', _name_template(g, rets[0].value, t),
                      rets[0], 'get_tmp_filename'))

    def show(tp):
        return ''.join(v if k == 'c' else '<' + v + '>'
                       for k, v in _merge(tp))

    for (wa, ta, ca, qa), (wb, tb, cb, qb) in itertools.combinations(
            dests, 2):
        if wa == wb:
            continue
        ok = provably_distinct(ta, tb)
        chk.check('C09.R8', f'tmpfiles.{qa}', f'{wa} vs {wb}', ok,
                  f'the copy of {wa} is named {show(ta)} and {wb} is named '
                  f'{show(tb)}: for suitable option values both are the same '
                  'file (e.g. two commands with the same base name), the '
                  'second copy replaces the first and one of the commands '
                  'is run with the other\'s executable',
                  loc=t.loc(ca), nontrivial=True)


def run(tier):
    prog = Program()
    chk = Check(
        PROP, 'proof', tier,
        clauses_decided=[
            'acceptance predicate == documented Boolean rule on all '
            'valuations of its atoms',
            'wiring of options, golden records, commands and time limits to '
            'the main and the cross-check comparison; verdict is the '
            'conjunction',
            'golden records are produced by the matching command on the '
            'input file',
            'every option attribute read is declared with the expected kind',
            '--unchecked returns a constant record before any process start',
            'argv = original arguments + exactly one file name carrying the '
            'input extension',
        ],
        clauses_not_decided=[
            'what the child process does; decoding of its output',
            'an empty match string ("") is treated like no match string by '
            'truthiness tests - both readings are accepted',
        ],
        assumptions=[
            'argparse stores each option under the dest derived from its '
            'first long option string',
            'RunInfo fields exit/out/err carry the child\'s status and '
            'decoded streams',
        ])
    chk.guard(rule_r1, chk, prog)
    chk.guard(rule_r2, chk, prog)
    chk.guard(rule_r3, chk, prog)
    chk.guard(rule_r4, chk, prog)
    chk.guard(rule_r5, chk, prog)
    chk.guard(rule_r6, chk, prog)
    chk.guard(rule_r7, chk, prog)
    chk.guard(rule_r8, chk, prog)
    # the golden records the predicate dereferences exist before the first
    # candidate is judged - under --unchecked as well (shared with C10.R5)
    from . import c10
    sub10 = Check('C10', 'other', tier, [], [])
    chk.guard(c10.rule_r5, sub10, prog)
    Check.restrict(sub10, lambda wh, what: wh == 'cli.ddsmt_main')
    chk.adopt('C09.R9', 'every strategy call is dominated by the golden '
              'runs: check() compares with the golden record on every path, '
              'a missing record turns each comparison into an exception that '
              'the workers report as "rejected" (shared with C10.R5)',
              sub10)
    # the verdict belongs to the candidate: the file the command reads is
    # private to the check that wrote it (shared with C01.R4)
    from . import c01
    sub01 = Check('C01', 'other', tier, [], [])
    chk.guard(c01.rule_r4, sub01, prog)
    Check.restrict(sub01, lambda wh, what: wh.startswith('tmpfiles.')
                   or 'Thread' in what or wh == 'checker.check_exprs')
    chk.adopt('C09.R10', 'the candidate file is written completely before '
              'the command starts and is private to the check (process and, '
              'with thread pools, thread): the accepted/rejected verdict is '
              'the one of this candidate (shared with C01.R4)', sub01)
    from . import c06 as _c06
    sub6 = Check('C06', 'other', tier, [], [])
    chk.guard(_c06.rule_r8, sub6, prog)
    chk.adopt('C09.R11', 'the golden run and the candidates are named after '
              'the input file the user gave: the path options are not '
              'replaced by resolved or derived paths (a resolved symlink '
              'has another extension; shared with C06.R8)', sub6)
    from .. import streams
    chk.guard(streams.report, chk, prog, 'C09.R12',
              'the run record carries each stream under its own name: the '
              'field out receives stdout, err receives stderr, exit the '
              'return code - by position in the declared field order',
              '--ignore-out / --ignore-err / --match-out / --match-err act on the other stream: candidates are accepted or rejected against the documentation')
    from .. import sigchld
    chk.guard(sigchld.report, chk, prog, 'C09.R13',
              'the disposition of SIGCHLD is never changed and no process '
              'waits for "any child": the exit code of the command reaches '
              'the comparison',
              'a candidate on which the command crashes is accepted whenever the golden exit code is 0')
    extra = None
    if tier == 'thorough':
        from .. import selftest
        extra = selftest.run_for(PROP)
    return chk.finish(extra)
