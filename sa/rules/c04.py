"""C04 - every run completes: no internal failure on any input, meaningful
exit status.

Decided: containment of mutator failures, raise-freedom of the code that
runs unprotected in the main process (for an enumerated set of raising
constructs), exit-status plumbing of every entry point, validation of user
supplied paths."""
import ast
import os

from ..astutil import (call_name, calls_in, walk_no_nested, params_of, kw,
                       is_const, opt_read)
from ..callgraph import (CallGraph, PROTOCOL, in_guarded_try, catches_all,
                         handler_escapes)
from ..cfg import cfg_of, expr_owner_node, facts_at, enumerate_paths
from ..loader import Program, AnalysisError, unparse
from ..report import Check
from ..shape import Summaries, minlen, known_leaf, known_nonleaf, _const_int

PROP = 'C04'

ZONE_MODULES = ('nodeio', 'nodes', 'smtlib', 'mutators', 'mutator_utils',
                'strategy_ddmin', 'strategy_hierarchical', 'checker', 'cli',
                'tmpfiles')


def _fn(node):
    n = getattr(node, '_parent', None)
    while n is not None:
        if isinstance(n, ast.FunctionDef):
            return n
        n = getattr(n, '_parent', None)
    return None


def compute_zone(prog):
    cg = CallGraph(prog)

    def follow(e):
        if e.guarded:
            return False
        if e.callee[1].split('.')[-1] in PROTOCOL and e.callee[0].startswith(
                'mutators_'):
            return False
        return True

    zone, via = cg.reachable([('cli', 'ddsmt_main')], follow)
    return cg, zone, via


# --------------------------------------------------------------------- R1
def protocol_sites(m, f):
    """Call sites that run mutator code (protocol calls, consumption of the
    iterables they return, application of a proposal)."""
    sites = []
    lazy = set()  # names bound to un-consumed protocol iterables
    filt = set()  # names bound to a mutator's filter function
    for st in walk_no_nested(f):
        if isinstance(st, ast.Assign) and isinstance(st.value, ast.Call):
            c = st.value
            if isinstance(c.func, ast.Attribute) and c.func.attr in (
                    'mutations', 'global_mutations'):
                for t in st.targets:
                    if isinstance(t, ast.Name):
                        lazy.add(t.id)
            if call_name(c) == 'getattr' and len(c.args) >= 2 and is_const(
                    c.args[1], 'filter'):
                for t in st.targets:
                    if isinstance(t, ast.Name):
                        filt.add(t.id)
    for c in walk_no_nested(f):
        if not isinstance(c, ast.Call):
            continue
        nm = call_name(c) or ''
        if isinstance(c.func, ast.Attribute) and c.func.attr in PROTOCOL \
                and not nm.startswith(('nodes.', 'smtlib.')):
            sites.append((c, f'call of {c.func.attr}()'))
        elif nm in ('apply_simp', 'mutator_utils.apply_simp', '_simp'):
            sites.append((c, f'{nm}()'))
        elif nm in ('list', 'next', 'iter', 'tuple') and c.args and any(
                isinstance(x, ast.Name) and x.id in lazy
                for x in ast.walk(c.args[0])):
            sites.append((c, 'consumption of a proposal generator'))
        elif nm.endswith('filter_nodes') and any(
                isinstance(a, ast.Name) and a.id in filt for a in c.args):
            sites.append((c, 'filter_nodes() with the mutator\'s filter'))
    for lp in walk_no_nested(f):
        if isinstance(lp, (ast.For, ast.comprehension)) and isinstance(
                lp.iter, ast.Name) and lp.iter.id in lazy:
            sites.append((lp.iter, 'iteration over a proposal generator'))
    return sites


def rule_r1(chk, prog, cg, zone):
    chk.rule('C04.R1', 'containment: every call into mutator code (filter / '
             'mutations / global_mutations, consumption of their iterables, '
             'apply_simp) that runs in the main process lies under an '
             '"except Exception" handler that neither re-raises nor exits')
    n = 0
    for modname in ('strategy_ddmin', 'strategy_hierarchical'):
        m = prog.mod(modname)
        for q, f in m.funcs.items():
            sites = protocol_sites(m, f)
            for (c, what) in sites:
                n += 1
                guarded_here = in_guarded_try(c, f)
                in_zone = (modname, q) in zone
                ok = guarded_here or not in_zone
                why = ('inside try/except Exception' if guarded_here else
                       'function only reachable through guarded call sites '
                       'or in worker processes')
                chk.check('C04.R1', f'{modname}.{q}', f'{what}: '
                          f'{unparse(c)[:60]}', ok,
                          f'{what} runs in the main process without an '
                          'enclosing "except Exception": an exception raised '
                          'by one mutator (they index and assert freely on '
                          'the ill-formed inputs delta debugging produces) '
                          'aborts the whole run with a traceback instead of '
                          'costing that mutator\'s candidates',
                          loc=m.loc(c), nontrivial=True, argument=why)
    chk.floor('C04.R1', 'mutator-code call sites in the strategies', n, 6)
    # the handlers themselves
    for modname in ('strategy_ddmin', 'strategy_hierarchical'):
        m = prog.mod(modname)
        for h in ast.walk(m.tree):
            if isinstance(h, ast.ExceptHandler) and catches_all(h):
                f = _fn(h)
                chk.check('C04.R1', f'{modname}.{f._qualname}', h,
                          not handler_escapes(h),
                          'the containment handler re-raises or exits',
                          loc=m.loc(h), nontrivial=True)
                # the handler must not fail itself: rendering the
                # s-expression that was handed to the mutator recurses over
                # its depth (Node.__str__), and depth is what made the
                # mutator fail with RecursionError in the first place
                tr = getattr(h, '_parent', None)
                guarded_args = set()
                if isinstance(tr, ast.Try):
                    for b in tr.body:
                        for c in ast.walk(b):
                            if isinstance(c, ast.Call) and (
                                    (isinstance(c.func, ast.Attribute)
                                     and c.func.attr in PROTOCOL)
                                    or (call_name(c) or '').split('.')[-1] in
                                    ('apply_simp', )):
                                for a in c.args:
                                    if isinstance(a, ast.Name):
                                        guarded_args.add(a.id)
                rendered = []
                for x in h.body:
                    for y in ast.walk(x):
                        if isinstance(y, ast.FormattedValue) and isinstance(
                                y.value, ast.Name) and \
                                y.value.id in guarded_args:
                            rendered.append(y.value)
                        elif isinstance(y, ast.Call) and call_name(y) in (
                                'str', 'repr') and y.args and isinstance(
                                    y.args[0], ast.Name) and \
                                y.args[0].id in guarded_args:
                            rendered.append(y.args[0])
                        elif isinstance(y, ast.Call) and (call_name(
                                y) or '').startswith('logging.'):
                            for a in y.args[1:]:
                                if isinstance(a, ast.Name) and \
                                        a.id in guarded_args:
                                    rendered.append(a)
                        elif isinstance(y, ast.BinOp) and isinstance(
                                y.op, ast.Mod):
                            for a in ast.walk(y.right):
                                if isinstance(a, ast.Name) and \
                                        a.id in guarded_args:
                                    rendered.append(a)
                if guarded_args:
                    chk.check('C04.R1', f'{modname}.{f._qualname}',
                              f'handler of the guard around '
                              f'{sorted(guarded_args)} does not render them',
                              not rendered,
                              'the containment handler formats '
                              f'{sorted({r.id for r in rendered})}, the '
                              's-expression handed to the mutator: '
                              'Node.__str__ recurses over the nesting depth, '
                              'so when the mutator failed with RecursionError '
                              'on a deeply nested term the handler raises a '
                              'second one, which escapes the guard and '
                              'aborts the run', loc=m.loc(h),
                              nontrivial=True)

    # a failure of one mutator must not cost the other mutators' candidates:
    # the handler of a try that sits directly in the loop over the mutators
    # does not leave that loop
    nloop = 0
    for modname in ('strategy_ddmin', 'strategy_hierarchical'):
        m = prog.mod(modname)
        for t in ast.walk(m.tree):
            if not isinstance(t, ast.Try):
                continue
            hs = [h for h in t.handlers if catches_all(h)]
            if not hs:
                continue
            recvs = set()
            for b in t.body:
                for c in ast.walk(b):
                    if isinstance(c, ast.Call) and isinstance(
                            c.func, ast.Attribute) and c.func.attr in \
                            PROTOCOL and isinstance(c.func.value, ast.Name):
                        recvs.add(c.func.value.id)
            if not recvs:
                continue
            # innermost loop around the try
            p = getattr(t, '_parent', None)
            inner = None
            while p is not None and not isinstance(
                    p, (ast.FunctionDef, ast.Lambda)):
                if isinstance(p, (ast.For, ast.While)):
                    inner = p
                    break
                p = getattr(p, '_parent', None)
            if inner is None or not isinstance(inner, ast.For):
                continue
            tnames = {x.id for x in ast.walk(inner.target)
                      if isinstance(x, ast.Name)}
            if not (tnames & recvs):
                continue
            nloop += 1
            f = _fn(t)
            for h in hs:
                leaves = []

                def scan(nodes, in_loop):
                    for x in nodes:
                        if isinstance(x, (ast.FunctionDef, ast.Lambda)):
                            continue
                        if isinstance(x, ast.Return):
                            leaves.append(x)
                        if isinstance(x, ast.Break) and not in_loop:
                            leaves.append(x)
                        scan(list(ast.iter_child_nodes(x)), in_loop
                             or isinstance(x, (ast.For, ast.While)))

                scan(h.body, False)
                chk.check('C04.R1', f'{modname}.{f._qualname}',
                          f'handler in the loop over {sorted(tnames & recvs)}'
                          ' continues with the next mutator', not leaves,
                          'the handler that contains a failing mutator '
                          f'leaves the loop over the mutators ('
                          f'{", ".join(unparse(x) for x in leaves)}): one '
                          'failing mutator costs the candidates of all the '
                          'mutators after it', loc=m.loc(leaves[0] if leaves
                                                         else h),
                          nontrivial=True)
    # ... and the guard sits inside the loop: a try that encloses the
    # whole loop over the mutators contains the failure, but ends the loop
    for modname in ('strategy_ddmin', 'strategy_hierarchical'):
        m = prog.mod(modname)
        for lp in ast.walk(m.tree):
            if not isinstance(lp, ast.For):
                continue
            tnames = {x.id for x in ast.walk(lp.target)
                      if isinstance(x, ast.Name)}
            pcs = [c for b in lp.body for c in ast.walk(b)
                   if isinstance(c, ast.Call) and isinstance(
                       c.func, ast.Attribute) and c.func.attr in PROTOCOL
                   and isinstance(c.func.value, ast.Name)
                   and c.func.value.id in tnames]
            if not pcs:
                continue
            f = _fn(lp)
            for c in pcs:
                # innermost catch-all try around the call
                p_ = getattr(c, '_parent', None)
                child = c
                guard_inside = None
                while p_ is not None and p_ is not f:
                    if isinstance(p_, ast.Try) and any(
                            catches_all(h) for h in p_.handlers) and any(
                                child is b or any(child is y
                                                  for y in ast.walk(b))
                                for b in p_.body):
                        # is the loop an ancestor of this try?
                        a_ = getattr(p_, '_parent', None)
                        inside = False
                        while a_ is not None and a_ is not f:
                            if a_ is lp:
                                inside = True
                            a_ = getattr(a_, '_parent', None)
                        guard_inside = inside
                        break
                    child = p_
                    p_ = getattr(p_, '_parent', None)
                if guard_inside is None:
                    # guarded at a call site of this function instead: that
                    # guard encloses the whole loop as well
                    short = f.name
                    for q2, f2 in m.funcs.items():
                        for c2 in calls_in(f2):
                            nm2 = (call_name(c2) or '').split('.')[-1]
                            if nm2 == short and f2 is not f and \
                                    in_guarded_try(c2, f2):
                                guard_inside = False
                if guard_inside is None:
                    continue  # unguarded altogether: judged above (zone)
                nloop += 1
                chk.check('C04.R1', f'{modname}.{f._qualname}',
                          f'guard of {unparse(c)[:40]} inside the loop over '
                          f'{sorted(tnames)}', guard_inside,
                          'the try/except that contains a failing mutator '
                          'encloses the whole loop over the mutators: the '
                          'exception ends the loop, the mutators after the '
                          'failing one are not asked for this node - one '
                          'failing mutator costs the candidates of all the '
                          'others', loc=m.loc(c), nontrivial=True)
    chk.floor('C04.R1', 'per-mutator containment handlers in a loop over '
              'the mutators', nloop, 1)


# --------------------------------------------------------------------- R2
NODE_PARAM_NAMES = {'node', 'cmd', 'expr', 'sort', 'term', 'n', 'e',
                    'linput', 'symbol'}
LIST_PARAM_NAMES = {'exprs', 'input_', 'vars'}
NON_SEXPR_MODULES = {'tmpfiles', 'checker', 'cli', 'options', '__main__',
                     'progress', 'debug_utils', 'argparsemod', 'version'}


class Typer:
    """Which names of a function hold s-expression nodes (E6, reduced)."""

    def __init__(self, m, f):
        self.m = m
        self.f = f
        self.node = set()
        self.lists = set()
        ps = params_of(f)
        # parameters are typed by their conventional names, but only in the
        # modules that handle s-expressions ("cmd" in tmpfiles/checker/cli
        # is the command line, not a command node)
        if m.name not in NON_SEXPR_MODULES:
            for p in ps:
                if p in NODE_PARAM_NAMES:
                    self.node.add(p)
                if p in LIST_PARAM_NAMES:
                    self.lists.add(p)
        changed = True
        while changed:
            changed = False
            for st in ast.walk(f):
                tgt, src, elem = None, None, False
                if isinstance(st, (ast.For, ast.comprehension)):
                    tgt, src, elem = st.target, st.iter, True
                elif isinstance(st, ast.Assign) and len(st.targets) == 1:
                    tgt, src = st.targets[0], st.value
                if tgt is None:
                    continue
                if elem and isinstance(src, ast.Call) and call_name(
                        src) == 'enumerate' and src.args and isinstance(
                            tgt, ast.Tuple) and len(tgt.elts) == 2:
                    # for i, x in enumerate(nodes): x is a node
                    if (self.is_node_expr(src.args[0])
                            or self.is_list_expr(src.args[0])) and isinstance(
                                tgt.elts[1], ast.Name):
                        if tgt.elts[1].id not in self.node:
                            self.node.add(tgt.elts[1].id)
                            changed = True
                    continue
                if elem:
                    isn = self.is_node_expr(src) or self.is_list_expr(src)
                else:
                    isn = self.is_node_expr(src)
                if not isn:
                    continue
                names = []
                if isinstance(tgt, ast.Name):
                    names = [tgt.id]
                elif isinstance(tgt, ast.Tuple) and (elem or True):
                    # "sym, term = var": components of a node are nodes;
                    # "cur_depth, expr = visit.pop()" is not node typed
                    if self.is_node_expr(src) or elem and \
                            self.is_node_expr(src):
                        names = [x.id for x in tgt.elts
                                 if isinstance(x, ast.Name)]
                for nm in names:
                    if nm not in self.node:
                        self.node.add(nm)
                        changed = True

    def is_list_expr(self, e):
        if isinstance(e, ast.Name) and e.id in self.lists:
            return True
        if isinstance(e, ast.Call) and (call_name(e) or '') in (
                'nodes.dfs', 'nodes.bfs', 'dfs', 'bfs', 'reversed'):
            return bool(e.args) and (self.is_list_expr(e.args[0])
                                     or self.is_node_expr(e.args[0]))
        if isinstance(e, ast.Subscript) and isinstance(
                e.slice, ast.Slice) and self.is_node_expr(e.value):
            return True
        return False

    def is_node_expr(self, e):
        if isinstance(e, ast.Name):
            return e.id in self.node
        if isinstance(e, ast.Subscript) and not isinstance(
                e.slice, ast.Slice):
            return self.is_node_expr(e.value) or self.is_list_expr(e.value)
        if isinstance(e, ast.Attribute) and e.attr == 'data':
            return False
        if isinstance(e, ast.Call) and isinstance(
                e.func, ast.Attribute) and e.func.attr == 'get_ident':
            return True
        return False


def rule_r2(chk, prog, cg, zone):
    chk.rule('C04.R2', 'raise-freedom of the main-process code that is not '
             'under a handler: constant subscripts on s-expressions need a '
             'dominating length fact; get_ident() needs has_ident(); '
             'fixed-arity unpacking needs len == n; possibly-None values '
             'are not dereferenced; pop() on the parser stack needs a '
             'non-empty test; int()/float() need a lexical test')
    summ = Summaries(prog)
    nsub = nobl = nvar = 0
    zone_funcs = sorted(z for z in zone if z[0] in ZONE_MODULES or (
        z[0].startswith('mutators_') and z[1] == 'is_relevant'))
    chk.floor('C04.R2', 'functions in the main-unguarded zone',
              len(zone_funcs), 60)
    chk.extra['zone_functions'] = [f'{a}.{b}' for a, b in zone_funcs]
    for (mn, q) in zone_funcs:
        m = prog.mod(mn)
        f = m.funcs[q]
        ty = Typer(m, f)
        where = f'{mn}.{q}'
        # ---- (a) constant subscripts
        for s in walk_no_nested(f):
            if not (isinstance(s, ast.Subscript) and isinstance(
                    s.ctx, ast.Load)):
                continue
            idx = _const_int(s.slice)
            if idx is None:
                continue
            recv = s.value
            if isinstance(recv, ast.Attribute) and recv.attr == 'data':
                base = recv.value
            else:
                base = recv
            if not ty.is_node_expr(base):
                continue
            nsub += 1
            x = unparse(base)
            facts = facts_at(f, s)
            if isinstance(base, ast.Name):
                facts = set(facts) | quantified_facts(s, base.id, facts)
            facts = summ.expand(m, facts)
            need = idx + 1 if idx >= 0 else -idx
            have = minlen(x, facts)
            ok = have >= need
            if not ok and known_leaf(x, facts) and idx in (0, -1):
                ok = True  # text of a reader-produced leaf is non-empty
            if not ok and need == 1 and _iter_elem_nonempty(s, base):
                ok = True
            nobl += 1
            chk.check('C04.R2', where, f'{unparse(s)} (needs {need} '
                      f'children, known {have})', ok,
                      f'"{unparse(s)}" is evaluated in the main process '
                      f'with only {have} children of "{x}" guaranteed by '
                      'the dominating tests: on an s-expression of the '
                      'wrong arity (delta debugging produces them: '
                      '(declare-const x), (forall), (let)) this is an '
                      'IndexError traceback that ends the run',
                      loc=m.loc(s), nontrivial=True,
                      argument=f'minlen({x}) from must-facts + predicate '
                      'summaries')
        # ---- (a') variable subscripts on s-expressions
        for s in walk_no_nested(f):
            if not (isinstance(s, ast.Subscript) and isinstance(
                    s.ctx, ast.Load) and isinstance(s.slice, ast.Name)):
                continue
            recv = s.value
            base = recv.value if isinstance(
                recv, ast.Attribute) and recv.attr == 'data' else recv
            if not ty.is_node_expr(base):
                continue
            nvar += 1
            nobl += 1
            ok, why = _index_bounded(f, s, s.slice.id, unparse(base))
            chk.check('C04.R2', where, f'{unparse(s)} (variable index)', ok,
                      f'"{unparse(s)}" is evaluated in the main process but '
                      f'nothing bounds "{s.slice.id}" by len({unparse(base)})'
                      f' ({why}): on an s-expression with fewer children '
                      'than expected this is an IndexError traceback that '
                      'ends the run', loc=m.loc(s), nontrivial=True,
                      argument=why)
        # ---- (e) get_ident needs has_ident
        for c in walk_no_nested(f):
            if isinstance(c, ast.Call) and isinstance(
                    c.func, ast.Attribute) and c.func.attr == 'get_ident' \
                    and ty.is_node_expr(c.func.value):
                x = unparse(c.func.value)
                facts = summ.expand(m, facts_at(f, c))
                ok = (f'{x}.has_ident()', True) in facts
                nobl += 1
                chk.check('C04.R2', where, unparse(c), ok,
                          f'{x}.get_ident() asserts has_ident(); no '
                          'dominating test establishes it', loc=m.loc(c),
                          nontrivial=True)
        # ---- (f) fixed-arity unpacking of a node
        for st in walk_no_nested(f):
            if isinstance(st, ast.Assign) and isinstance(
                    st.targets[0], ast.Tuple) and ty.is_node_expr(st.value):
                x = unparse(st.value)
                k = len(st.targets[0].elts)
                facts = summ.expand(m, facts_at(f, st.value))
                ok = (f'len({x}) == {k}', True) in facts
                nobl += 1
                chk.check('C04.R2', where, st, ok,
                          f'"{unparse(st)}" unpacks exactly {k} components '
                          f'but no dominating test shows len({x}) == {k}: '
                          'a binder such as ((w)) raises ValueError in the '
                          'main process', loc=m.loc(st), nontrivial=True)
        # ---- (b) possibly-None locals
        none_vars = set()
        for st in walk_no_nested(f):
            if isinstance(st, ast.Assign) and is_const(st.value) and \
                    st.value.value is None:
                for t in st.targets:
                    if isinstance(t, ast.Name):
                        none_vars.add(t.id)
        for nd in walk_no_nested(f):
            v = None
            if isinstance(nd, ast.Attribute) and isinstance(
                    nd.value, ast.Name) and nd.value.id in none_vars and \
                    isinstance(nd.ctx, ast.Load):
                v = nd.value.id
            if v is None:
                continue
            facts = facts_at(f, nd)
            ok = (f'{v} is None', False) in facts
            if not ok:
                # every definition reaching the use is a non-None value
                from ..cfg import reaching_defs, expr_owner_node
                cfg_ = cfg_of(f)
                on = expr_owner_node(cfg_, nd)
                ds = (reaching_defs(cfg_, params_of(f)).get(on) or {}).get(
                    v) or ()
                def nonnull(d):
                    if d == 'param':
                        return False
                    a = d.ast
                    if isinstance(a, ast.Assign) and len(a.targets) == 1 \
                            and isinstance(a.targets[0], ast.Name):
                        val = a.value
                        return not (isinstance(val, ast.Constant)
                                    and val.value is None) and isinstance(
                                        val, (ast.List, ast.Tuple, ast.Dict,
                                              ast.Subscript, ast.Call,
                                              ast.ListComp, ast.JoinedStr))
                    return False
                ok = bool(ds) and all(nonnull(d) for d in ds)
                if not ok:
                    # "x = None" defaults that every path to this use either
                    # overwrites or refutes by a test
                    from ..cfg import none_def_reaches
                    others = [d for d in ds if d != 'param' and not (
                        isinstance(d.ast, ast.Assign) and isinstance(
                            d.ast.value, ast.Constant)
                        and d.ast.value.value is None)]
                    nones = [d for d in ds if d != 'param' and d not in others]
                    # only the explicit "= None" initialisations make the
                    # name possibly None (that is how it entered none_vars)
                    ok = 'param' not in ds and not any(
                        none_def_reaches(f, d.ast, nd, v) for d in nones)
            nobl += 1
            chk.check('C04.R2', where, f'{unparse(nd)} with {v} possibly '
                      'None', ok,
                      f'"{v}" is None on some path (it is initialised to '
                      f'None) and "{unparse(nd)}" dereferences it without a '
                      f'dominating "{v} is not None"', loc=m.loc(nd),
                      nontrivial=True)
        # ---- (c) pop() on a list that may be empty (scanner stack)
        if (mn, q) == ('nodeio', 'parse_smtlib'):
            for c in walk_no_nested(f):
                if isinstance(c, ast.Call) and isinstance(
                        c.func, ast.Attribute) and c.func.attr == 'pop' and \
                        not c.args:
                    x = unparse(c.func.value)
                    facts = facts_at(f, c)
                    ok = (x, True) in facts or any(
                        pol and t.startswith(f'len({x}) >')
                        for (t, pol) in facts)
                    nobl += 1
                    chk.check('C04.R2', where, unparse(c), ok,
                              f'{x}.pop() on a stack that is empty when the '
                              'input has an unmatched ")": IndexError '
                              'traceback while parsing', loc=m.loc(c),
                              nontrivial=True)
        # ---- (d) int()/float() on leaf text
        for c in walk_no_nested(f):
            if isinstance(c, ast.Call) and call_name(c) in (
                    'int', 'float') and c.args and isinstance(
                        c.args[0], ast.Attribute) and \
                    c.args[0].attr == 'data':
                x = unparse(c.args[0].value)
                facts = summ.expand(m, facts_at(f, c))
                ok = any(pol and (t in (f'{x}.data.isdigit()',
                                        f'is_int_const({x})',
                                        f'is_arith_const({x})',
                                        f'is_real_const({x})')
                                  or t.startswith(f're.match(')
                                  and x in t) for (t, pol) in facts)
                nobl += 1
                chk.check('C04.R2', where, unparse(c), ok,
                          f'{unparse(c)} converts leaf text without a '
                          'dominating lexical test (isdigit / is_int_const '
                          '/ a regular expression): ValueError (or '
                          'AttributeError on a non-leaf) in the main '
                          'process', loc=m.loc(c), nontrivial=True)
        # ---- (g) .index(x) raises ValueError when x is absent
        for c in walk_no_nested(f):
            if isinstance(c, ast.Call) and isinstance(
                    c.func, ast.Attribute) and c.func.attr == 'index' and \
                    c.args and not in_guarded_try(c, f):
                recv = unparse(c.func.value)
                needle = unparse(c.args[0])
                facts = facts_at(f, c)
                ok = (f'{needle} in {recv}', True) in facts or (
                    f'{needle} not in {recv}', False) in facts
                nobl += 1
                chk.check('C04.R2', where, unparse(c)[:50], ok,
                          f'{recv}.index({needle}) raises ValueError when '
                          f'{needle} does not occur (no dominating '
                          f'"{needle} in {recv}"): in the main process this '
                          'is a traceback that ends the run (e.g. a comment '
                          'on the last line of an input without a final '
                          'line feed)', loc=m.loc(c), nontrivial=True)
        # ---- asserts on input data
        for st in walk_no_nested(f):
            if isinstance(st, ast.Assert) and mn in ('smtlib', ):
                t = unparse(st.test)
                facts = summ.expand(m, facts_at(f, st))
                ok = (t, True) in facts or t.startswith('isinstance(')
                nobl += 1
                chk.check('C04.R2', where, st, ok,
                          f'"assert {t}" on input data is not implied by a '
                          'dominating test', loc=m.loc(st), nontrivial=True)
    chk.floor('C04.R2', 'constant subscripts on s-expressions in the zone',
              nsub, 20)
    chk.floor('C04.R2', 'variable subscripts on s-expressions in the zone',
              nvar, 1)
    chk.extra['zone_obligations'] = nobl


def _index_bounded(f, sub, idx, base):
    """idx < len(base) at ``sub``: from a dominating comparison or because
    idx ranges over range(len(base)) / enumerate(base)."""
    from ..shape import parse_expr
    ln = f'len({base})'
    lnd = f'len({base}.data)'
    for (t, pol) in facts_at(f, sub):
        e = parse_expr(t)
        if not (isinstance(e, ast.Compare) and len(e.ops) == 1):
            continue
        l, r, op = unparse(e.left), unparse(e.comparators[0]), e.ops[0]
        if l == idx and r in (ln, lnd):
            if pol and isinstance(op, ast.Lt) or \
                    not pol and isinstance(op, ast.GtE):
                return True, f'dominating test {"" if pol else "not "}{t}'
        if r == idx and l in (ln, lnd):
            if pol and isinstance(op, ast.Gt) or \
                    not pol and isinstance(op, ast.LtE):
                return True, f'dominating test {"" if pol else "not "}{t}'
    p = getattr(sub, '_parent', None)
    while p is not None and not isinstance(p, ast.FunctionDef):
        its = []
        if isinstance(p, ast.For):
            its = [(p.target, p.iter)]
        elif isinstance(p, (ast.ListComp, ast.GeneratorExp, ast.SetComp,
                            ast.DictComp)):
            its = [(g.target, g.iter) for g in p.generators]
        for tg, it in its:
            if isinstance(tg, ast.Name) and tg.id == idx and isinstance(
                    it, ast.Call) and call_name(it) == 'range' and it.args \
                    and unparse(it.args[-1 if len(it.args) < 3 else 1]) in (
                        ln, lnd):
                return True, f'{idx} ranges over {unparse(it)}'
            if isinstance(tg, ast.Tuple) and tg.elts and isinstance(
                    tg.elts[0], ast.Name) and tg.elts[0].id == idx and \
                    isinstance(it, ast.Call) and call_name(
                        it) == 'enumerate' and it.args and unparse(
                            it.args[0]) in (base, f'{base}.data'):
                return True, f'{idx} enumerates {base}'
        p = getattr(p, '_parent', None)
    return False, 'no dominating comparison with the length, no range/' \
        'enumerate over the same expression'


def _iter_elem_nonempty(s, base):
    return False


def quantified_facts(node, name, facts):
    """From (any(map(lambda n: P(n), L)), False) derive (P(x), False) for a
    variable x that ranges over L (comprehension / for target)."""
    from ..astutil import subst
    from ..shape import parse_expr
    res = set()
    p = getattr(node, '_parent', None)
    iters = []
    while p is not None and not isinstance(p, ast.FunctionDef):
        if isinstance(p, (ast.ListComp, ast.GeneratorExp, ast.SetComp,
                          ast.DictComp)):
            for g in p.generators:
                if isinstance(g.target, ast.Name) and g.target.id == name:
                    iters.append(unparse(g.iter))
        if isinstance(p, ast.For) and isinstance(
                p.target, ast.Name) and p.target.id == name:
            iters.append(unparse(p.iter))
        p = getattr(p, '_parent', None)
    if not iters:
        return res
    for (t, pol) in facts:
        if pol:
            continue
        e = parse_expr(t)
        if isinstance(e, ast.Call) and call_name(e) == 'any' and e.args and \
                isinstance(e.args[0], ast.Call) and call_name(
                    e.args[0]) == 'map' and len(e.args[0].args) == 2:
            lam, coll = e.args[0].args
            if isinstance(lam, ast.Lambda) and len(
                    lam.args.args) == 1 and unparse(coll) in iters:
                body = subst(lam.body, {lam.args.args[0].arg: ast.Name(
                    id=name, ctx=ast.Load())})
                from ..cfg import decompose, fact_key
                for (x, pl) in decompose(body, False):
                    res.add(fact_key(x, pl))
    return res


# --------------------------------------------------------------------- R3
def rule_r3(chk, prog):
    chk.rule('C04.R3', 'main() maps outcomes to statuses: 0 only after '
             'ddsmt_main() completed; every handler path returns non-zero; '
             'KeyboardInterrupt, MemoryError and the usage exception are '
             'handled; every other sys.exit reachable from main is non-zero')
    mm = prog.mod('__main__')
    f = mm.func('main')
    cfg = cfg_of(f)
    where = '__main__.main'
    trys = [t for t in walk_no_nested(f) if isinstance(t, ast.Try)]
    ok = len(trys) == 1
    chk.check('C04.R3', where, 'one try block', ok, f'{len(trys)} try blocks',
              loc=mm.loc(f))
    if not ok:
        return
    t = trys[0]
    handled = set()
    for h in t.handlers:
        if h.type is None:
            handled.add('<bare>')
        else:
            for x in ast.walk(h.type):
                if isinstance(x, (ast.Name, ast.Attribute)):
                    handled.add(unparse(x))
    for need in ('MemoryError', 'KeyboardInterrupt', 'cli.DDSMTException'):
        chk.check('C04.R3', where, f'handles {need}', need in handled,
                  f'main() has no handler for {need}: a traceback instead '
                  'of a one-line diagnostic', loc=mm.loc(t), nontrivial=True)
    # return values per path
    rets = [n for n in cfg.nodes if n.kind == 'stmt' and isinstance(
        n.ast, ast.Return)]
    for n in rets:
        v = n.ast.value
        val = v.value if isinstance(v, ast.Constant) else None
        in_try_body = any(n.ast in list(ast.walk(s)) for s in t.body)
        in_handler = any(n.ast in list(ast.walk(h)) for h in t.handlers)
        if in_try_body:
            # must come after the call of ddsmt_main in the same body
            calls = [c for c in calls_in(t) if call_name(
                c) == 'cli.ddsmt_main']
            marks = {expr_owner_node(cfg, c): 'ran' for c in calls}
            IN, _ = cfg.dominators_facts(marks)
            ok = val == 0 and 'ran' in (IN.get(n) or ())
            chk.check('C04.R3', where, f'{unparse(n.ast)} in the try body',
                      ok, 'status 0 is returned without ddsmt_main() '
                      'having completed', loc=mm.loc(n.ast), nontrivial=True)
        else:
            ok = isinstance(val, int) and val != 0
            chk.check('C04.R3', where, f'{unparse(n.ast)} after a handled '
                      'failure', ok, 'a failure path returns status 0 (or a '
                      'non-integer)', loc=mm.loc(n.ast), nontrivial=True)
    # no fall-through: the exit node's predecessors are all returns
    for e in cfg.exit.pred:
        if not (e.src.kind == 'stmt' and isinstance(e.src.ast, ast.Return)):
            chk.check('C04.R3', where, 'falls off the end', False,
                      'main() can end without returning a status (None '
                      'is turned into 0 by sys.exit)', loc=mm.loc(f),
                      nontrivial=True)
    # handlers print one line (on every path through the handler)
    def counts(stmts):
        """Possible numbers of print() calls along the paths of a block."""
        res = {0}
        for st in stmts:
            if isinstance(st, ast.If):
                here = counts(st.body) | counts(st.orelse)
                tst = len([c for c in calls_in(st.test)
                           if call_name(c) == 'print'])
                here = {x + tst for x in here}
            elif isinstance(st, (ast.For, ast.While, ast.Try, ast.With)):
                inner = [c for c in calls_in(st) if call_name(c) == 'print']
                here = {0} if not inner else {0, 1, 2}
            else:
                here = {len([c for c in calls_in(st)
                             if call_name(c) == 'print'])}
            res = {a + b for a in res for b in here}
        return res

    for h in t.handlers:
        cs = counts(h.body)
        chk.check('C04.R3', where, f'handler {unparse(h.type)} prints one '
                  'line', cs == {1}, 'handler does not print exactly one '
                  f'diagnostic on every path (possible counts {sorted(cs)})',
                  loc=mm.loc(h))
    # sys.exit sites in the package
    n = 0
    for m in prog.pkg_modules():
        for c in ast.walk(m.tree):
            if isinstance(c, ast.Call) and call_name(c) in ('sys.exit',
                                                            'exit'):
                fn = _fn(c)
                q = fn._qualname if fn else '<module>'
                if m.name == '__main__' and q == '<module>':
                    continue
                n += 1
                code = c.args[0] if c.args else None
                zero = code is None or (isinstance(code, ast.Constant)
                                        and code.value in (0, None))
                ok = not zero
                if zero and fn is not None:
                    facts = facts_at(fn, c)
                    ok = ('options.args().parser_test', True) in facts
                chk.check('C04.R3', f'{m.name}.{q}', c, ok,
                          'sys.exit with status 0 outside the documented '
                          '--parser-test exit: a failed run reports success',
                          loc=m.loc(c), nontrivial=True)
    chk.floor('C04.R3', 'sys.exit sites', n, 1)
    # usage exception: raised with a one-line message
    cli = prog.mod('cli')
    nr = 0
    for r in ast.walk(cli.tree):
        if isinstance(r, ast.Raise) and r.exc is not None and isinstance(
                r.exc, ast.Call) and call_name(r.exc) == 'DDSMTException':
            nr += 1
            a = r.exc.args[0] if r.exc.args else None
            fn_ = _fn(r)
            if a is not None and fn_ is not None:
                from ..astutil import expand_locals
                a = expand_locals(fn_, a)
            lits = []
            known = a is not None

            def parts(e):
                nonlocal known
                if isinstance(e, ast.Constant) and isinstance(e.value, str):
                    lits.append(e.value)
                elif isinstance(e, ast.JoinedStr):
                    for v in e.values:
                        if isinstance(v, ast.Constant):
                            lits.append(str(v.value))
                elif isinstance(e, ast.Call) and isinstance(
                        e.func, ast.Attribute) and e.func.attr == 'format':
                    parts(e.func.value)
                elif isinstance(e, ast.BinOp) and isinstance(
                        e.op, (ast.Add, ast.Mod)):
                    parts(e.left)
                    if isinstance(e.op, ast.Add):
                        parts(e.right)
                else:
                    known = False

            if a is not None:
                parts(a)
            ok = a is not None and not any('\n' in x for x in lits)
            if ok and not known:
                chk.info('C04.R3', 'usage diagnostic built from a value '
                         f'this rule does not resolve: {unparse(r)[:60]}',
                         loc=cli.loc(r))
            chk.check('C04.R3', 'cli', r, ok, 'usage diagnostic is not a '
                      'one-line message (no message, or a literal part '
                      'contains a line break)', loc=cli.loc(r))
    chk.floor('C04.R3', 'raise DDSMTException sites', nr, 4)


# --------------------------------------------------------------------- R4
def rule_r4(chk, prog):
    chk.rule('C04.R4', 'every entry point propagates main()\'s status to '
             'the process exit status')
    ep = prog.entry_points
    cs = ep['console_scripts']
    ok = cs.get('ddsmt', '').replace(' ', '') == 'ddsmt:__main__.main'
    chk.check('C04.R4', 'setup.cfg', f'console_scripts ddsmt = '
              f'{cs.get("ddsmt")}', ok, 'the console script does not point '
              'at ddsmt.__main__.main (setuptools wraps it in sys.exit)',
              nontrivial=True)
    mm = prog.mod('__main__')
    tail = [s for s in mm.tree.body if isinstance(s, ast.If)]
    ok = False
    for s in tail:
        if "__name__ == '__main__'" in unparse(s.test):
            ok = any(isinstance(x, ast.Expr) and unparse(
                x.value) == 'sys.exit(main())' for x in s.body)
    chk.check('C04.R4', 'ddsmt/__main__.py', 'sys.exit(main())', ok,
              'python -m ddsmt does not pass main()\'s value to sys.exit',
              nontrivial=True)
    for name in ('bin/ddsmt', ):
        if name not in prog.modules:
            raise AnalysisError(f'{name} not found')
        m = prog.modules[name]
        calls = [c for c in ast.walk(m.tree) if isinstance(c, ast.Call)
                 and (call_name(c) or '').endswith('__main__.main')]
        ok = bool(calls)
        for c in calls:
            par = getattr(c, '_parent', None)
            ok = ok and isinstance(par, ast.Call) and call_name(
                par) == 'sys.exit'
        chk.check('C04.R4', name, '__main__.main() wrapped in sys.exit', ok,
                  f'{name} calls __main__.main() as a bare statement: its '
                  'return value is discarded and the executable exits with '
                  'status 0 after usage errors, interrupts and memory '
                  'exhaustion', loc=m.loc(calls[0]) if calls else name,
                  nontrivial=True)
    # attribute references at entry points resolve
    for name, m in prog.modules.items():
        if not name.startswith('bin/'):
            continue
        for a in ast.walk(m.tree):
            if isinstance(a, ast.Attribute) and isinstance(
                    a.value, ast.Name) and a.value.id == '__main__':
                ok = a.attr in prog.mod('__main__').funcs
                if name == 'bin/ddsmt':
                    chk.check('C04.R4', name, unparse(a), ok,
                              f'{unparse(a)} does not exist in '
                              'ddsmt/__main__.py', loc=m.loc(a))
                elif not ok:
                    chk.info('C04.R4', f'{name}: {unparse(a)} does not '
                             'exist in ddsmt/__main__.py (developer helper, '
                             'not an installed entry point; advisory)',
                             loc=m.loc(a))


# --------------------------------------------------------------------- R5
def rule_r5(chk, prog):
    chk.rule('C04.R5', 'user-supplied paths consumed by raising file '
             'operations in the main process are validated by '
             'check_options first (sibling rule: cmd is, so cmd_cc must be)')
    cli = prog.mod('cli')
    co = cli.func('check_options')
    raises = [r for r in ast.walk(co) if isinstance(r, ast.Raise)]
    facts_per_raise = [facts_at(co, r.exc) for r in raises if r.exc]
    # validation delegated to a helper of the same module: instantiate the
    # helper's raise-facts with the arguments of each call
    from ..astutil import subst, bind_args
    from ..shape import parse_expr
    for c in calls_in(co):
        if isinstance(c.func, ast.Name) and c.func.id in cli.funcs:
            h = cli.funcs[c.func.id]
            try:
                b = bind_args(c, h)
            except AnalysisError:
                continue
            for r in ast.walk(h):
                if isinstance(r, ast.Raise) and r.exc is not None:
                    fs = set()
                    for (t, pol) in facts_at(h, r.exc):
                        e = parse_expr(t)
                        if e is not None:
                            fs.add((unparse(subst(e, b)), pol))
                    facts_per_raise.append(fs | set(facts_at(co, c)))

    def validated(expr_txt, test):
        return any((f'{test}({expr_txt})', False) in fs or (
            f'{test}({expr_txt}, os.X_OK)', False) in fs
                   for fs in facts_per_raise)

    t = prog.mod('tmpfiles')
    cb = t.func('copy_binaries')
    consumed = []
    from ..astutil import resolve_near
    COPIES = ('shutil.copy', 'shutil.copy2', 'shutil.copyfile')
    for c in calls_in(cb):
        if call_name(c) in COPIES:
            a0 = resolve_near(cb, c.args[0], c)
            if isinstance(a0, ast.Subscript) and isinstance(
                    a0.value, ast.Name):
                a0 = ast.Subscript(value=resolve_near(cb, a0.value, c),
                                   slice=a0.slice, ctx=ast.Load())
            consumed.append(unparse(a0))
        elif isinstance(c.func, ast.Name) and c.func.id in t.funcs:
            # copying delegated to a helper of the module (one level)
            h = t.funcs[c.func.id]
            try:
                b = bind_args(c, h)
            except AnalysisError:
                continue
            for hc in calls_in(h):
                if call_name(hc) in COPIES and hc.args:
                    consumed.append(unparse(subst(hc.args[0], b)))
    main = cli.func('ddsmt_main')
    for c in calls_in(main):
        if call_name(c) == 'open' and c.args:
            consumed.append(unparse(c.args[0]))
    chk.floor('C04.R5', 'user paths consumed in the main process',
              len(consumed), 3)
    for x in consumed:
        ok = validated(x, 'os.path.isfile')
        msg = (f'"{x}" is opened/copied in the main process but '
               'check_options never tests os.path.isfile on it: a wrong '
               'path ends in a FileNotFoundError traceback instead of the '
               'one-line diagnostic')
        chk.check('C04.R5', 'cli.check_options', f'isfile({x})', ok, msg,
                  loc=cli.loc(co), nontrivial=True)
        if 'cmd' in x:
            ok2 = validated(x, 'os.access')
            chk.check('C04.R5', 'cli.check_options', f'access({x}, X_OK)',
                      ok2, f'"{x}" is executed but never tested for being '
                      'executable', loc=cli.loc(co), nontrivial=True)
    # check_options dominates the consumers in ddsmt_main
    cfg = cfg_of(main)
    marks = {}
    for c in calls_in(main):
        nm = call_name(c)
        if nm in ('check_options', 'tmpfiles.copy_binaries', 'open',
                  'checker.do_golden_runs'):
            marks[expr_owner_node(cfg, c)] = nm
    IN, _ = cfg.dominators_facts(marks)
    for n, nm in marks.items():
        if nm != 'check_options':
            chk.check('C04.R5', 'cli.ddsmt_main', f'{nm} after '
                      'check_options', 'check_options' in (IN[n] or ()),
                      f'{nm} is not dominated by check_options()',
                      loc=cli.loc(n.ast), nontrivial=True)


def rule_r7(chk, prog):
    chk.rule('C04.R7', 'what the main process pickles for the workers is a '
             'materialised list: the proposals of one task are never handed '
             'on as the (possibly lazy) result of a mutator method')
    dm = prog.mod('strategy_ddmin')
    nx = dm.func('TaskGenerator.__next__')
    n = 0
    # does the generator pickle proposals at all (in __next__ or in a method
    # it delegates the task construction to)?
    scopes = [nx]
    for c in calls_in(nx):
        if isinstance(c.func, ast.Attribute) and isinstance(
                c.func.value, ast.Name) and c.func.value.id == 'self':
            h_ = dm.funcs.get(f'TaskGenerator.{c.func.attr}')
            if h_ is not None and h_ not in scopes:
                scopes.append(h_)
    pickles = [c for sc in scopes for c in calls_in(sc)
               if call_name(c) == 'pickle.dumps' and c.args]
    for c in pickles[:1]:
        # the producers of the proposals: methods of the generator whose
        # result is bound in __next__
        for st in walk_no_nested(nx):
            a = st.targets[0] if isinstance(st, ast.Assign) and isinstance(
                st.targets[0], ast.Name) else None
            if a is None:
                continue
            if isinstance(st, ast.Assign) and unparse(
                    st.targets[0]) == a.id and isinstance(
                        st.value, ast.Call) and isinstance(
                            st.value.func, ast.Attribute) and isinstance(
                                st.value.func.value, ast.Name) and \
                    st.value.func.value.id == 'self':
                q = f'TaskGenerator.{st.value.func.attr}'
                h = dm.funcs.get(q)
                if h is None:
                    continue
                for r in walk_no_nested(h):
                    if not isinstance(r, ast.Return) or r.value is None:
                        continue
                    n += 1
                    v = r.value
                    lazy = None
                    for x in ast.walk(v):
                        if isinstance(x, ast.Call) and isinstance(
                                x.func, ast.Attribute) and \
                                x.func.attr in PROTOCOL:
                            lazy = x
                    wrapped = isinstance(v, ast.Call) and call_name(v) in (
                        'list', 'tuple', 'sorted')
                    ok = lazy is None or wrapped
                    if isinstance(v, ast.Name):
                        ds = [s_.value for s_ in walk_no_nested(h)
                              if isinstance(s_, ast.Assign)
                              and unparse(s_.targets[0]) == v.id]
                        ok = not any(
                            isinstance(d_, ast.Call) and isinstance(
                                d_.func, ast.Attribute)
                            and d_.func.attr in PROTOCOL for d_ in ds)
                    chk.check('C04.R7', f'strategy_ddmin.{q}', r, ok,
                              'the result of a mutator method (a generator '
                              'for most mutators) is returned as is and '
                              'then pickled in the main process for the '
                              'workers: TypeError "cannot pickle generator" '
                              'aborts the run as soon as tasks are '
                              'distributed (-j > 1)', loc=dm.loc(r),
                              nontrivial=True)
    chk.floor('C04.R7', 'returns feeding the pickled task payload', n, 2)


# --------------------------------------------------------------------- R8
MAIN_PROCESS_MODULES = ('cli', 'progress', 'strategy_ddmin',
                        'strategy_hierarchical', 'checker', 'options',
                        'tmpfiles', 'debug_utils', '__main__')
# divisors that cannot be zero for a reason outside the function
NONZERO_BY_CONTEXT = {
    ('cli', 'os.path.getsize(options.args().infile)'):
        'evaluated only when the result differs from the parsed input, and '
        'an empty input file parses to the empty list, which cannot be '
        'reduced',
}


def _nonzero_evidence(m, f, site, div):
    if isinstance(div, ast.Constant):
        return isinstance(div.value, (int, float)) and div.value != 0
    if isinstance(div, ast.Call) and call_name(div) == 'max' and any(
            isinstance(a, ast.Constant) and isinstance(
                a.value, (int, float)) and a.value > 0 for a in div.args):
        return True
    if isinstance(div, ast.BinOp) and isinstance(div.op, ast.Add) and any(
            isinstance(x, ast.Constant) and isinstance(
                x.value, (int, float)) and x.value > 0
            for x in (div.left, div.right)) and any(
                isinstance(x, ast.Call) and call_name(x) == 'len'
                for x in (div.left, div.right)):
        return True
    t = unparse(div)
    facts = facts_at(f, site)
    for (ft, pol) in facts:
        ft = ft.replace(' ', '')
        tt = t.replace(' ', '')
        if pol and ft in (tt, f'{tt}!=0', f'{tt}>0', f'{tt}>=1', f'0<{tt}',
                          f'0!={tt}'):
            return True
        if not pol and ft in (f'not{tt}', f'{tt}==0', f'0=={tt}',
                              f'{tt}<=0', f'{tt}<1'):
            return True
    return False


def rule_r8(chk, prog):
    chk.rule('C04.R8', 'no division by a possibly-zero value in the code '
             'that runs in the main process outside the per-mutator guards')
    n = 0
    for modname in MAIN_PROCESS_MODULES:
        try:
            m = prog.mod(modname)
        except AnalysisError:
            continue
        for q, f in m.funcs.items():
            for x in walk_no_nested(f):
                div = None
                if isinstance(x, ast.BinOp) and isinstance(
                        x.op, (ast.Div, ast.FloorDiv, ast.Mod)):
                    if isinstance(x.op, ast.Mod) and isinstance(
                            x.left, (ast.JoinedStr, ast.Constant)) and not (
                                isinstance(x.left, ast.Constant)
                                and isinstance(x.left.value, (int, float))):
                        continue  # string formatting
                    if isinstance(x.right, (ast.JoinedStr, )) or (
                            isinstance(x.right, ast.Constant) and isinstance(
                                x.right.value, str)):
                        continue  # path / 'name': not arithmetic
                    div = x.right
                elif isinstance(x, ast.AugAssign) and isinstance(
                        x.op, (ast.Div, ast.FloorDiv, ast.Mod)):
                    div = x.value
                if div is None:
                    continue
                n += 1
                ok = _nonzero_evidence(m, f, x, div)
                why = ''
                if not ok:
                    from ..astutil import expand_locals
                    src = unparse(expand_locals(f, div))
                    why = NONZERO_BY_CONTEXT.get((modname, src))
                    ok = why is not None
                chk.check('C04.R8', f'{modname}.{q}', x, ok,
                          f'"{unparse(x)}" divides by "{unparse(div)}", '
                          'which is zero for some inputs (e.g. an input '
                          'that has been reduced to nothing) and is not '
                          'tested before: ZeroDivisionError in the main '
                          'process aborts the run with a traceback',
                          loc=m.loc(x), nontrivial=True,
                          argument=why or 'divisor constant or tested')
    chk.floor('C04.R8', 'divisions in main-process code', n, 3)


# --------------------------------------------------------------------- R9
def rule_r9(chk, prog):
    chk.rule('C04.R9', 'option post-processing runs before check_options '
             'has validated anything: an element of a list-valued option '
             'is accessed only under a test that the list is non-empty')
    m = prog.mod('options')
    n = 0
    for q, f in m.funcs.items():
        # names bound to the parsed namespace
        ns = set()
        for st in walk_no_nested(f):
            if isinstance(st, ast.Assign) and isinstance(
                    st.value, ast.Call) and isinstance(
                        st.value.func, ast.Attribute) and \
                    st.value.func.attr in ('parse_args',
                                           'parse_known_args'):
                for t in st.targets:
                    for y in ast.walk(t):
                        if isinstance(y, ast.Name):
                            ns.add(y.id)
        if not ns:
            continue
        for x in walk_no_nested(f):
            if not (isinstance(x, ast.Subscript) and isinstance(
                    x.value, ast.Attribute) and isinstance(
                        x.value.value, ast.Name) and x.value.value.id in ns
                    and not isinstance(x.slice, ast.Slice)):
                continue
            n += 1
            base = unparse(x.value)
            facts = facts_at(f, x)
            ok = False
            # a truthiness test of the list itself, not invalidated by a
            # later rebinding of the attribute (facts_at kills those)
            for (ft, pol) in facts:
                if pol and ft in (base, f'len({base}) > 0',
                                  f'len({base}) >= 1'):
                    ok = True
                if not pol and ft in (f'not {base}', f'len({base}) == 0'):
                    ok = True
            chk.check('C04.R9', f'options.{q}', x, ok,
                      f'{unparse(x)} is evaluated while the options are '
                      f'being parsed; {base} can be empty (no command given, '
                      'a blank string split into words) and nothing has '
                      'been validated yet: IndexError with a traceback '
                      'instead of the one-line usage error', loc=m.loc(x),
                      nontrivial=True)
    chk.instance('C04.R9', 'options', 'element accesses on the parsed '
                 f'namespace during option processing: {n}', True,
                 'all guarded' if n else 'none on this tree',
                 nontrivial=False)


# -------------------------------------------------------------------- R10
def rule_r10(chk, prog, cg):
    chk.rule('C04.R10', 'profiler activations do not nest (cProfile refuses '
             'a second activation: "ValueError: Another profiling tool is '
             'already active" since Python 3.12): a Profiler entered in the '
             'main process inside ddsmt_main\'s own is inert, a forked '
             'worker stops the inherited one first')
    du = prog.mod('debug_utils')
    cd = du.cls('Profiler')
    init = du.func('Profiler.__init__')
    where = 'debug_utils.Profiler.__init__'
    # with-sites
    sites = []
    for m in prog.pkg_modules():
        if 'tests' in m.rel():
            continue
        for w in ast.walk(m.tree):
            if isinstance(w, ast.With):
                for it in w.items:
                    c = it.context_expr
                    if isinstance(c, ast.Call) and (call_name(
                            c) or '').split('.')[-1] == 'Profiler':
                        fn = _fn(w)
                        sites.append((m, fn, w, c))
    chk.floor('C04.R10', 'with Profiler(...) sites', len(sites), 2)
    mains = [s_ for s_ in sites if s_[3].args or s_[3].keywords]
    others = [s_ for s_ in sites if not (s_[3].args or s_[3].keywords)]
    # which of the plain sites can execute in the main process, below the
    # main site?  (direct calls only: pool edges run elsewhere)
    nested_main, nested_fork = [], []
    for (m0, f0, w0, c0) in mains:
        root = (m0.name, f0._qualname)
        same, _ = cg.reachable([root], lambda e: e.kind not in ('pool', ))
        anyp, _ = cg.reachable([root], lambda e: True)
        for (m1, f1, w1, c1) in others:
            k = (m1.name, f1._qualname)
            if k in same:
                nested_main.append((m1, f1, w1))
            if k in anyp:
                nested_fork.append((m1, f1, w1))
    ps = params_of(init)
    flag = ps[1] if len(ps) > 1 else None
    # assignments of "enabled" in __init__, by process kind: decided by the
    # facts about parent_process() at the assignment (through locals), or
    # by the test of a conditional expression
    main_asg, work_asg, work_body = [], [], []

    def kind_of(facts_):
        for (t, pol) in facts_:
            tt = t.replace(' ', '')
            if 'parent_process()' not in tt:
                continue
            if tt.endswith('isNone'):
                return 'main' if pol else 'work'
            if tt.endswith('isnotNone'):
                return 'work' if pol else 'main'
        return None

    for st in walk_no_nested(init):
        if not (isinstance(st, ast.Assign) and any(
                unparse(t_) == f'{ps[0]}.enabled' for t_ in st.targets)):
            continue
        k_ = kind_of(facts_at(init, st))
        if k_ == 'main':
            main_asg.append(st)
        elif k_ == 'work':
            work_asg.append(st)
        elif isinstance(st.value, ast.IfExp):
            from ..astutil import expand_locals as _el
            tt = unparse(_el(init, st.value.test)).replace(' ', '')
            if 'parent_process()' in tt and tt.endswith(('isNone',
                                                          'isnotNone')):
                mainv, workv = (st.value.body, st.value.orelse) \
                    if tt.endswith('isNone') else (st.value.orelse,
                                                   st.value.body)
                fake = ast.Assign(targets=st.targets, value=mainv)
                ast.copy_location(fake, st)
                main_asg.append(fake)
    for st in ast.walk(init):
        if isinstance(st, ast.If):
            k_t = kind_of([(unparse(st.test), True)])
            if k_t is None:
                from ..astutil import expand_locals as _el
                k_t = kind_of([(unparse(_el(init, st.test)), True)])
            if k_t == 'main':
                work_body = work_body + st.orelse
            elif k_t == 'work':
                work_body = work_body + st.body
    if not main_asg:
        raise AnalysisError('C04.R10: Profiler.__init__: assignment of '
                            '"enabled" for the main process not found')
    if nested_main:
        for a in main_asg:
            names = {x.id for x in ast.walk(a.value)
                     if isinstance(x, ast.Name)}
            ok = flag is not None and names == {flag}
            chk.check('C04.R10', where, a, ok,
                      f'in the main process every Profiler is active '
                      f'("{unparse(a)}"), also the one of '
                      f'{nested_main[0][0].name}.'
                      f'{nested_main[0][1]._qualname}, which runs inside '
                      'ddsmt_main\'s "with Profiler(True)" when tasks are '
                      'processed sequentially: cProfile is enabled twice, '
                      '--profile ends in a traceback (and the inner '
                      '__exit__ switches the main profile off)',
                      loc=du.loc(a), nontrivial=True)
    if nested_fork:
        stops = [c for x in work_body for c in ast.walk(x)
                 if isinstance(c, ast.Call) and isinstance(
                     c.func, ast.Attribute) and c.func.attr == 'disable']
        chk.check('C04.R10', where, 'a forked worker stops the inherited '
                  'profiler', bool(stops),
                  'the pool is created while the main process is being '
                  'profiled, so a forked worker inherits the active '
                  'profiler; its own "with Profiler()" ('
                  f'{nested_fork[0][0].name}.{nested_fork[0][1]._qualname}) '
                  'enables cProfile again without stopping the inherited '
                  'one first: every task fails with ValueError under '
                  '--profile', loc=du.loc(init), nontrivial=True)
    chk.instance('C04.R10', 'package', f'{len(nested_main)} plain site(s) '
                 f'reachable in the main process below the main site, '
                 f'{len(nested_fork)} via the pool', True,
                 'call graph reachability from the profiled region',
                 nontrivial=False)


# -------------------------------------------------------------------- R11
NONE_INTOLERANT_CALLS = ('list', 'tuple', 'sorted', 'len', 'sum', 'any',
                         'all', 'map', 'zip', 'enumerate', 'reversed',
                         'set', 'iter', 'min', 'max')


def _may_return_none(f):
    """Some path of f returns a value and some path returns None (bare
    return, ``return None`` or falling off the end)."""
    if any(isinstance(x, (ast.Yield, ast.YieldFrom))
           for x in walk_no_nested(f)):
        return None
    rets = [r for r in walk_no_nested(f) if isinstance(r, ast.Return)]
    vals = [r for r in rets if r.value is not None and not (
        isinstance(r.value, ast.Constant) and r.value.value is None)]
    nones = [r for r in rets if r not in vals]
    if not vals:
        return None
    if nones:
        return nones[0]
    cfg = cfg_of(f)
    for n in cfg.nodes:
        for e in n.succ:
            if e.dst is cfg.exit and e.kind != 'exc' and not (
                    n.kind == 'stmt' and isinstance(
                        n.ast, (ast.Return, ast.Raise))):
                return n.ast
    return None


def _none_intolerant_use(x):
    """How the expression node x is consumed, if a None there raises."""
    p = getattr(x, '_parent', None)
    if isinstance(p, (ast.For, ast.comprehension)) and p.iter is x:
        return 'iterated'
    if isinstance(p, ast.Call) and x in p.args:
        nm = call_name(p) or ''
        if nm in NONE_INTOLERANT_CALLS:
            return f'passed to {nm}()'
        if isinstance(p.func, ast.Attribute) and p.func.attr in (
                'extend', 'join', 'update', 'writelines'):
            return f'passed to .{p.func.attr}()'
    if isinstance(p, ast.Subscript) and p.value is x:
        return 'subscripted'
    if isinstance(p, ast.Attribute) and p.value is x:
        return f'dereferenced (.{p.attr})'
    if isinstance(p, ast.Starred):
        return 'unpacked with *'
    if isinstance(p, ast.BinOp) and isinstance(p.op, ast.Add):
        return 'concatenated'
    if isinstance(p, ast.Compare) and x in p.comparators and any(
            isinstance(o, (ast.In, ast.NotIn)) for o in p.ops):
        return 'searched with "in"'
    return None


def rule_r11(chk, prog, cg):
    chk.rule('C04.R11', 'a function that returns None on some path and a '
             'value on another has no caller that consumes the result as a '
             'sequence / object without testing it')
    mixed = {}
    for (mn, q), (m, f) in cg.funcs.items():
        if 'tests' in m.rel():
            continue
        w = _may_return_none(f)
        if w is not None:
            mixed[(mn, q)] = (m, f, w)
    n = 0
    for e in cg.edges:
        if e.callee not in mixed or e.kind in ('pool', ):
            continue
        cm, cf_, why = mixed[e.callee]
        call = e.call
        m = e.mod
        fn = _fn(call)
        n += 1
        use = _none_intolerant_use(call)
        site = call
        if use is None:
            par = getattr(call, '_parent', None)
            if isinstance(par, ast.Assign) and len(
                    par.targets) == 1 and isinstance(
                        par.targets[0], ast.Name) and fn is not None:
                v = par.targets[0].id
                for u in walk_no_nested(fn):
                    if isinstance(u, ast.Name) and u.id == v and isinstance(
                            u.ctx, ast.Load):
                        k = _none_intolerant_use(u)
                        if k is None:
                            continue
                        facts = facts_at(fn, u)
                        tested = any(
                            (t == v and pol) or (t == f'{v} is None'
                                                 and not pol)
                            or (t == f'{v} is not None' and pol)
                            or (t == f'not {v}' and not pol)
                            for (t, pol) in facts)
                        # another binding may reach the use
                        others = [s_ for s_ in walk_no_nested(fn)
                                  if isinstance(s_, ast.Assign)
                                  and s_ is not par and any(
                                      isinstance(t_, ast.Name)
                                      and t_.id == v for t_ in s_.targets)]
                        if not tested and not others:
                            use, site = k, u
                            break
        if use is None:
            continue
        chk.check('C04.R11', f'{m.name}.{fn._qualname if fn else "?"}',
                  site, False,
                  f'the result of {e.callee[0]}.{e.callee[1]}() is {use}, '
                  f'but that function returns None on some path (line '
                  f'{getattr(why, "lineno", "?")}: '
                  f'"{unparse(why)[:40]}"): TypeError/AttributeError in the '
                  'main process, outside every per-mutator guard',
                  loc=m.loc(site), nontrivial=True)
    chk.instance('C04.R11', 'package', f'{len(mixed)} functions with mixed '
                 f'returns, {n} call sites examined', True,
                 sorted(f'{a}.{b}' for (a, b) in mixed)[:8],
                 nontrivial=False)
    chk.floor('C04.R11', 'call sites of mixed-return functions', n, 3)


# -------------------------------------------------------------------- R13
def rule_r13(chk, prog):
    chk.rule('C04.R13', 'state the forked workers read is set up before the '
             'pool is created: a module global that a pool\'s worker '
             'function reads and the pool-creating function assigns is '
             'assigned on every path before the pool exists')
    n = 0
    for modname in ('strategy_ddmin', 'strategy_hierarchical'):
        m = prog.mod(modname)
        for q, f in m.funcs.items():
            pools = [c for c in calls_in(f)
                     if (call_name(c) or '').endswith('Pool')
                     and 'ThreadPool' not in (call_name(c) or '')]
            if not pools:
                continue
            gl = set()
            for x in walk_no_nested(f):
                if isinstance(x, ast.Global):
                    gl.update(x.names)
            if not gl:
                continue
            # worker functions handed to the pool
            workers = set()
            for c in calls_in(f):
                if isinstance(c.func, ast.Attribute) and c.func.attr in (
                        'imap', 'imap_unordered', 'map', 'map_async',
                        'apply_async', 'starmap') and c.args:
                    w = c.args[0]
                    if isinstance(w, ast.Name) and w.id in m.funcs:
                        workers.add(w.id)
            read = set()
            for w in workers:
                for x in ast.walk(m.funcs[w]):
                    if isinstance(x, ast.Name) and isinstance(
                            x.ctx, ast.Load) and x.id in gl:
                        read.add(x.id)
            if not read:
                continue
            cfg = cfg_of(f)
            for g in sorted(read):
                asg = [st for st in walk_no_nested(f)
                       if isinstance(st, ast.Assign) and any(
                           isinstance(t, ast.Name) and t.id == g
                           for t in st.targets)]
                if not asg:
                    continue
                marks = {cfg.node_of[id(st)]: 'set' for st in asg
                         if id(st) in cfg.node_of}
                IN, _ = cfg.dominators_facts(marks)
                for pc in pools:
                    n += 1
                    pn = expr_owner_node(cfg, pc)
                    ok = 'set' in (IN.get(pn) or ())
                    chk.check('C04.R13', f'{modname}.{q}',
                              f'{g} assigned before {unparse(pc)[:40]}', ok,
                              f'the workers of this pool read the module '
                              f'global "{g}" ({sorted(workers)}), but it is '
                              'assigned only after the pool has been '
                              'created: a forked worker keeps whatever the '
                              'global held at fork time (None, or the '
                              'proxy of a manager that has been shut down '
                              'since), its first use raises in the worker '
                              'and the exception comes back through the '
                              'result iterator into the main process',
                              loc=m.loc(pc), nontrivial=True)
    chk.floor('C04.R13', 'worker-read globals set by a pool-creating '
              'function', n, 1)


# -------------------------------------------------------------------- R14
BUILTIN_FUNCS = ('id', 'len', 'min', 'max', 'sum', 'abs', 'all', 'any',
                 'hash', 'iter', 'next', 'input', 'format', 'sorted',
                 'print', 'open', 'repr', 'ord', 'chr', 'round', 'divmod',
                 'pow', 'vars', 'dir', 'callable', 'getattr', 'setattr',
                 'hasattr', 'isinstance', 'issubclass', 'exit', 'quit',
                 'compile', 'eval', 'exec', 'globals', 'locals', 'bin',
                 'hex', 'oct', 'ascii', 'delattr')


def builtin_as_data(tree):
    """Uses of a builtin *function* name that no scope binds, as a
    subscript index or as an operand of arithmetic / an ordering
    comparison: [(node, name, context)]."""
    out = []
    module_bound = set()
    for st in tree.body:
        for x in ast.walk(st) if not isinstance(
                st, (ast.FunctionDef, ast.ClassDef)) else [st]:
            if isinstance(x, ast.Name) and isinstance(x.ctx, ast.Store):
                module_bound.add(x.id)
            if isinstance(x, (ast.FunctionDef, ast.ClassDef)):
                module_bound.add(x.name)
            if isinstance(x, (ast.Import, ast.ImportFrom)):
                for a in x.names:
                    module_bound.add((a.asname or a.name).split('.')[0])

    def scope_bound(f):
        b = {a.arg for a in f.args.args + f.args.kwonlyargs
             + f.args.posonlyargs}
        if f.args.vararg:
            b.add(f.args.vararg.arg)
        if f.args.kwarg:
            b.add(f.args.kwarg.arg)
        for x in ast.walk(f):
            if isinstance(x, ast.Name) and isinstance(x.ctx, (ast.Store,
                                                              ast.Del)):
                b.add(x.id)
            elif isinstance(x, (ast.FunctionDef, ast.ClassDef)) and \
                    x is not f:
                b.add(x.name)
            elif isinstance(x, ast.ExceptHandler) and x.name:
                b.add(x.name)
            elif isinstance(x, (ast.Import, ast.ImportFrom)):
                for a in x.names:
                    b.add((a.asname or a.name).split('.')[0])
        return b

    def visit(node, bound):
        for c in ast.iter_child_nodes(node):
            if isinstance(c, (ast.FunctionDef, ast.Lambda)):
                nb = bound | (scope_bound(c) if isinstance(
                    c, ast.FunctionDef) else {a.arg for a in c.args.args})
                visit(c, nb)
                continue
            if isinstance(c, (ast.ListComp, ast.SetComp, ast.DictComp,
                              ast.GeneratorExp)):
                nb = set(bound)
                for g in c.generators:
                    for y in ast.walk(g.target):
                        if isinstance(y, ast.Name):
                            nb.add(y.id)
                visit(c, nb)
                continue
            if isinstance(c, ast.Subscript) and isinstance(
                    c.slice, ast.Name) and c.slice.id in BUILTIN_FUNCS and \
                    c.slice.id not in bound:
                out.append((c, c.slice.id, 'subscript index'))
            if isinstance(c, ast.BinOp):
                for o in (c.left, c.right):
                    if isinstance(o, ast.Name) and o.id in BUILTIN_FUNCS \
                            and o.id not in bound:
                        out.append((c, o.id, 'arithmetic operand'))
            if isinstance(c, ast.Compare) and any(
                    isinstance(op, (ast.Lt, ast.LtE, ast.Gt, ast.GtE))
                    for op in c.ops):
                for o in [c.left] + list(c.comparators):
                    if isinstance(o, ast.Name) and o.id in BUILTIN_FUNCS \
                            and o.id not in bound:
                        out.append((c, o.id, 'ordering comparison'))
            visit(c, bound)

    visit(tree, module_bound)
    return out


def rule_r16(chk, prog):
    chk.rule('C04.R16', 'no builtin function is used as data (subscript '
             'index, arithmetic operand, ordering comparison): a local that '
             'shadowed "id", "len", "sum", ... and was renamed leaves such '
             'a use behind, which raises TypeError when the line is reached')
    import os
    from ..loader import Module
    n = 0
    for m in prog.pkg_modules():
        if 'tests' in m.rel():
            continue
        n += 1
        for (node, name, ctx) in builtin_as_data(m.tree):
            fn = _fn(node)
            chk.check('C04.R16', f'{m.name}.'
                      f'{fn._qualname if fn is not None else ""}', node,
                      False, f'"{unparse(node)[:60]}" uses the builtin '
                      f'function {name} as {ctx}: no enclosing scope binds '
                      f'"{name}" (a renamed loop variable or parameter?), '
                      'so the line raises TypeError when it is reached - in '
                      'the main process that is a traceback and exit '
                      'status 1', loc=m.loc(node), nontrivial=True)
    fx = os.path.join(os.path.dirname(os.path.dirname(os.path.dirname(
        os.path.abspath(__file__)))), 'fixtures', 'builtin_as_data.py')
    if not os.path.isfile(fx):
        raise AnalysisError('fixture fixtures/builtin_as_data.py missing')
    fm = Module('fixture', fx, open(fx).read())
    got = sorted((_fn(nd).name, nm) for (nd, nm, _) in builtin_as_data(
        fm.tree))
    if got != [('bad_arith', 'sum'), ('bad_index', 'id')]:
        raise AnalysisError(f'C04.R16 self-check: fixture judged {got}')
    chk.instance('C04.R16', 'scope', f'{n} modules examined; fixture: 2 '
                 'planted uses detected, 2 correct functions accepted', True,
                 'zero-count rule with positive example')


def rule_r17(chk, prog):
    chk.rule('C04.R17', 'a manager whose proxy is kept in a module global '
             'is not shut down while that global still refers to the proxy: '
             'the next reader of the global (the worker function, also when '
             'it runs in the main process) would talk to a dead manager')
    n = 0
    for m in prog.pkg_modules():
        if 'tests' in m.rel():
            continue
        for q, f in m.funcs.items():
            gl = {x for g in walk_no_nested(f) if isinstance(g, ast.Global)
                  for x in g.names}
            mgrs = {st.targets[0].id for st in walk_no_nested(f)
                    if isinstance(st, ast.Assign) and isinstance(
                        st.targets[0], ast.Name) and isinstance(
                            st.value, ast.Call) and (call_name(
                                st.value) or '').endswith('Manager')}
            for st in walk_no_nested(f):
                if isinstance(st, ast.With):
                    for it in st.items:
                        if isinstance(it.context_expr, ast.Call) and (
                                call_name(it.context_expr) or '').endswith(
                                    'Manager') and isinstance(
                                        it.optional_vars, ast.Name):
                            mgrs.add(it.optional_vars.id)
            if not mgrs:
                continue
            proxies = {}
            for st in walk_no_nested(f):
                if isinstance(st, ast.Assign) and isinstance(
                        st.targets[0], ast.Name) and st.targets[0].id in gl \
                        and isinstance(st.value, ast.Call) and isinstance(
                            st.value.func, ast.Attribute) and isinstance(
                                st.value.func.value, ast.Name) and \
                        st.value.func.value.id in mgrs:
                    proxies.setdefault(st.value.func.value.id, []).append(
                        (st.targets[0].id, st))
            cfg = cfg_of(f)
            for mg, gs in proxies.items():
                ends = [c for c in calls_in(f) if isinstance(
                    c.func, ast.Attribute) and c.func.attr in (
                        'shutdown', '__exit__') and isinstance(
                            c.func.value, ast.Name)
                        and c.func.value.id == mg]
                withs = [st for st in walk_no_nested(f)
                         if isinstance(st, ast.With) and any(
                             isinstance(it.optional_vars, ast.Name)
                             and it.optional_vars.id == mg
                             for it in st.items)]
                for (g, gst) in gs:
                    n += 1
                    bad = None
                    for e in ends:
                        # the global is rebound after the shutdown on every
                        # path to the exit
                        en = expr_owner_node(cfg, e)
                        INB, OUTB = cfg.must_backward(
                            gen=lambda n_: ['reset'] if (
                                n_.kind == 'stmt' and isinstance(
                                    n_.ast, ast.Assign) and any(
                                        isinstance(t, ast.Name)
                                        and t.id == g
                                        for t in n_.ast.targets)) else [])
                        if 'reset' not in (OUTB.get(en) or ()):
                            bad = e
                    if withs and bad is None:
                        bad = withs[0]
                    chk.check('C04.R17', f'{m.name}.{q}', f'{g} = {mg}.'
                              f'{gst.value.func.attr}()', bad is None,
                              f'the manager "{mg}" is shut down '
                              f'("{unparse(bad)[:40] if bad is not None else ""}'
                              f'") while the module global {g} still holds '
                              'its proxy: the next use of the global (e.g. '
                              'the sequential pass that follows a parallel '
                              'one) raises BrokenPipeError / '
                              'FileNotFoundError', loc=m.loc(bad or gst),
                              nontrivial=True)
    chk.instance('C04.R17', 'scope', f'{n} proxies of locally created '
                 'managers stored in module globals', True,
                 'zero-count rule (witness: C04_22)')


def rule_r15(chk, prog):
    chk.rule('C04.R15', 'a library call that answers "nothing found" with '
             'None (re.match / search / fullmatch, also on compiled '
             'patterns; shutil.which) is not dereferenced in main-process '
             'code before a None test')
    from ..cfg import facts_at
    OPT_FUNCS = ('re.match', 're.search', 're.fullmatch', 'shutil.which')
    OPT_METHODS = ('match', 'search', 'fullmatch')

    def compiled(m, f, e):
        """is ``e`` a compiled pattern (a name bound to re.compile(..))"""
        if isinstance(e, ast.Call) and call_name(e) == 're.compile':
            return True
        if isinstance(e, ast.Name):
            ds = []
            if f is not None:
                ds = [st.value for st in ast.walk(f)
                      if isinstance(st, ast.Assign) and any(
                          isinstance(t, ast.Name) and t.id == e.id
                          for t in st.targets)]
            if not ds:
                ds = list(m.globals.get(e.id, []))
            return bool(ds) and all(isinstance(d, ast.Call) and call_name(
                d) == 're.compile' for d in ds)
        return False

    n = 0
    for modname in MAIN_PROCESS_MODULES + ('nodeio', 'nodes', 'version'):
        try:
            m = prog.mod(modname)
        except AnalysisError:
            continue
        for c in ast.walk(m.tree):
            if not isinstance(c, ast.Call):
                continue
            nm = call_name(c) or ''
            f = _fn(c)
            opt = nm in OPT_FUNCS or (
                isinstance(c.func, ast.Attribute)
                and c.func.attr in OPT_METHODS
                and compiled(m, f, c.func.value))
            if not opt:
                continue
            n += 1
            where = f'{modname}.{f._qualname if f is not None else ""}'
            par = getattr(c, '_parent', None)
            # dereferenced on the spot
            if isinstance(par, (ast.Attribute, ast.Subscript)) and \
                    par.value is c:
                chk.check('C04.R15', where, c, False,
                          f'"{unparse(par)[:60]}" uses the result of '
                          f'{unparse(c.func)} directly: when nothing matches '
                          'it is None and the main process dies with '
                          'AttributeError / TypeError and a traceback',
                          loc=m.loc(c), nontrivial=True)
                continue
            # bound to a name: every dereference of that name is guarded
            if isinstance(par, ast.Assign) and len(
                    par.targets) == 1 and isinstance(
                        par.targets[0], ast.Name) and f is not None:
                v = par.targets[0].id
                rebinds = [st for st in ast.walk(f) if isinstance(
                    st, ast.Assign) and st is not par and any(
                        isinstance(t, ast.Name) and t.id == v
                        for t in st.targets)]
                bad = None
                for u in ast.walk(f):
                    if isinstance(u, (ast.Attribute, ast.Subscript)) and \
                            isinstance(u.value, ast.Name) and \
                            u.value.id == v and not rebinds:
                        fs = facts_at(f, u)
                        if not ((v, True) in fs
                                or (f'{v} is None', False) in fs
                                or (f'{v} is not None', True) in fs
                                or (f'not {v}', False) in fs):
                            bad = u
                            break
                chk.check('C04.R15', where, c, bad is None,
                          f'"{unparse(bad)[:60] if bad is not None else ""}"'
                          f' reads the result of {unparse(c.func)} without '
                          'a None test: when nothing matches the main '
                          'process dies with AttributeError / TypeError and '
                          'a traceback', loc=m.loc(c), nontrivial=True)
                continue
            chk.check('C04.R15', where, c, True, '', loc=m.loc(c))
    chk.floor('C04.R15', 'optional-result calls in main-process modules', n,
              2)


def rule_r14(chk, prog):
    chk.rule('C04.R14', 'the renderers run in the main process on trees the '
             'mutators built: the text of a leaf is indexed only after it '
             'is known to be non-empty (a mutator may propose the empty '
             'leaf, e.g. from the quoted symbol ||)')
    m = prog.mod('nodeio')
    n = 0
    for q, f in m.funcs.items():
        if 'write' not in q:
            continue
        for x in walk_no_nested(f):
            if not (isinstance(x, ast.Subscript) and isinstance(
                    x.value, ast.Attribute) and x.value.attr == 'data'
                    and isinstance(x.slice, ast.Constant)
                    and isinstance(x.slice.value, int)):
                continue
            base = unparse(x.value)
            facts = facts_at(f, x)
            # only leaf texts (strings): the node is known to be a leaf
            owner = unparse(x.value.value)
            if not any(t == f'{owner}.is_leaf()' and pol
                       for (t, pol) in facts):
                continue
            n += 1
            ok = any((t == f"{base} == ''" and not pol)
                     or (t == f"{base} != ''" and pol)
                     or (t == base and pol)
                     or (t == f'not {base}' and not pol)
                     or (t.startswith(f'len({base}) >') and pol)
                     for (t, pol) in facts)
            # the test may be part of the same conjunction, to the left
            p_ = getattr(x, '_parent', None)
            while p_ is not None and not isinstance(p_, ast.stmt):
                if isinstance(p_, ast.BoolOp) and isinstance(p_.op, ast.And):
                    for v in p_.values:
                        if v is x or any(y is x for y in ast.walk(v)):
                            break
                        if unparse(v) in (base, f"{base} != ''"):
                            ok = True
                p_ = getattr(p_, '_parent', None)
            chk.check('C04.R14', f'nodeio.{q}', x, ok,
                      f'{unparse(x)} is evaluated for a leaf whose text may '
                      'be empty (no dominating test that it is not): '
                      'IndexError in the main process while the output file '
                      'is written', loc=m.loc(x), nontrivial=True)
    chk.floor('C04.R14', 'indexed leaf texts in the renderers', n, 2)


def rule_r22(chk, prog):
    chk.rule('C04.R22', 'the summary reads the output file only where it is '
             'known to exist: every stat / open-for-reading of the output '
             'path in cli.py is dominated by a structural comparison of the '
             'result with the original input (something was accepted, hence '
             'written) or by an existence test')
    m = prog.mod('cli')
    n = 0
    for q, f in m.funcs.items():
        if '<locals>' in q:
            continue
        for c in walk_no_nested(f):
            if not (isinstance(c, ast.Call) and (call_name(c) or '') in (
                    'os.path.getsize', 'os.stat', 'os.path.getmtime', 'open')
                    and c.args and 'outfile' in unparse(c.args[0])):
                continue
            if call_name(c) == 'open' and len(c.args) > 1 and is_const(
                    c.args[1]) and set(str(c.args[1].value)) & set('wax'):
                continue
            n += 1
            facts = facts_at(f, c)
            ok = False
            for (t, pol) in facts:
                e = None
                try:
                    e = ast.parse(t, mode='eval').body
                except SyntaxError:
                    continue
                if isinstance(e, ast.Compare) and len(e.ops) == 1 and \
                        isinstance(e.ops[0], (ast.Eq, ast.NotEq)) and \
                        isinstance(e.left, ast.Name) and isinstance(
                            e.comparators[0], ast.Name):
                    differs = pol != isinstance(e.ops[0], ast.Eq)
                    if differs:
                        ok = True
                if pol and 'os.path.exists' in t and 'outfile' in t:
                    ok = True
                if pol and 'os.path.isfile' in t and 'outfile' in t:
                    ok = True
            chk.check('C04.R22', f'cli.{q}', c, ok,
                      f'"{unparse(c)[:50]}" is evaluated without the result '
                      'having been shown to differ from the input (== / != '
                      'on the lists; an identity test says nothing: ddmin '
                      'always returns a new list): when nothing was '
                      'accepted the output file was never written and the '
                      'run ends with FileNotFoundError after a completed '
                      'minimisation', loc=m.loc(c), nontrivial=True)
    chk.floor('C04.R22', 'reads of the output file in cli.py', n, 1)


def rule_r23(chk, prog):
    chk.rule('C04.R23', 'a value the code itself tests for None is not used '
             'in arithmetic where it may still be None: in the functions of '
             'the main-process bookkeeping (strategies, checker, cli) every '
             '+ / - / += / comparison-by-order on an expression that the '
             'same function compares with None is dominated by that test')
    n = 0
    for mn in ('strategy_hierarchical', 'strategy_ddmin', 'checker', 'cli',
               'progress'):
        m = prog.mod(mn)
        for q, f in m.funcs.items():
            if '<locals>' in q:
                continue
            tested = set()
            for c in walk_no_nested(f):
                if isinstance(c, ast.Compare) and len(c.ops) == 1 and \
                        isinstance(c.ops[0], (ast.Is, ast.IsNot)) and \
                        isinstance(c.comparators[0], ast.Constant) and \
                        c.comparators[0].value is None and isinstance(
                            c.left, (ast.Attribute, ast.Name, ast.Subscript)):
                    tested.add(unparse(c.left))
            if not tested:
                continue
            for x in walk_no_nested(f):
                uses = []
                if isinstance(x, ast.BinOp) and isinstance(
                        x.op, (ast.Add, ast.Sub, ast.Mult, ast.Div,
                               ast.FloorDiv, ast.Mod)):
                    uses = [x.left, x.right]
                elif isinstance(x, ast.AugAssign):
                    uses = [x.value]
                elif isinstance(x, ast.Compare) and any(
                        isinstance(o, (ast.Lt, ast.LtE, ast.Gt, ast.GtE))
                        for o in x.ops):
                    uses = [x.left] + list(x.comparators)
                for u in uses:
                    t = unparse(u)
                    if t not in tested:
                        continue
                    # a definite value assigned on the way also settles it
                    n += 1
                    facts = facts_at(f, x)
                    ok = (f'{t} is None', False) in facts or (
                        f'{t} is not None', True) in facts
                    chk.check('C04.R23', f'{mn}.{q}',
                              f'{unparse(x)[:50]} [{t}]', ok,
                              f'"{unparse(x)[:50]}" uses "{t}", which this '
                              'function itself compares with None, at a '
                              'point where it may still be None (the test '
                              'does not dominate the use): TypeError in '
                              'the main process - a traceback and exit '
                              'status 1 in place of a completed run',
                              loc=m.loc(x), nontrivial=True)
    chk.floor('C04.R23', 'arithmetic uses of None-tested values', n, 1)


def rule_r24(chk, prog):
    chk.rule('C04.R24', 'the string keys used on the small record '
             'dictionaries of the main-process bookkeeping (statistics per '
             'mutator, per pass) are keys the record is created with: within '
             'a class / function that builds a dict display with literal '
             'string keys, every literal string subscript on a local name '
             'is one of those keys')
    n = 0
    for mn in ('strategy_hierarchical', 'strategy_ddmin', 'checker', 'cli',
               'progress', 'debug_utils'):
        m = prog.mod(mn)
        scopes = []
        for st in m.tree.body:
            if isinstance(st, ast.ClassDef):
                scopes.append((f'{mn}.{st.name}', st))
            elif isinstance(st, ast.FunctionDef):
                scopes.append((f'{mn}.{st.name}', st))
        for where, sc in scopes:
            keys = set()
            for d in ast.walk(sc):
                if isinstance(d, ast.Dict) and len(d.keys) >= 2 and all(
                        isinstance(k_, ast.Constant) and isinstance(
                            k_.value, str) for k_ in d.keys):
                    keys |= {k_.value for k_ in d.keys}
            if not keys:
                continue
            # a plain store creates its key
            for x in ast.walk(sc):
                if isinstance(x, ast.Subscript) and isinstance(
                        x.ctx, ast.Store) and isinstance(
                            x.slice, ast.Constant) and isinstance(
                                x.slice.value, str) and not isinstance(
                                    getattr(x, '_parent', None),
                                    ast.AugAssign):
                    keys.add(x.slice.value)
            for x in ast.walk(sc):
                if isinstance(x, ast.Subscript) and isinstance(
                        x.value, ast.Name) and isinstance(
                            x.slice, ast.Constant) and isinstance(
                                x.slice.value, str):
                    if isinstance(x.ctx, ast.Store) and not isinstance(
                            getattr(x, '_parent', None), ast.AugAssign):
                        continue
                    n += 1
                    chk.check('C04.R24', where, x, x.slice.value in keys,
                              f'"{unparse(x)}" uses the key '
                              f'{x.slice.value!r}, but the records of '
                              f'{where} are created with the keys '
                              f'{sorted(keys)}: KeyError in the main '
                              'process as soon as that statement runs '
                              '(e.g. only with -v and after the first '
                              'accepted simplification)', loc=m.loc(x),
                              nontrivial=True)
    chk.floor('C04.R24', 'literal keys used on record dictionaries', n, 6)


def rule_r25(chk, prog):
    chk.rule('C04.R25', 'fields of the run record that are None for an '
             'expired run (exit, out, err) are not formatted with a format '
             'specification, used in arithmetic or searched, except under a '
             'test that excludes None')
    m = prog.mod('checker')
    n = 0
    for q, f in m.funcs.items():
        if '<locals>' in q:
            continue
        for x in walk_no_nested(f):
            if isinstance(x, ast.FormattedValue) and x.format_spec is not \
                    None and isinstance(x.value, ast.Attribute) and \
                    x.value.attr in ('exit', 'out', 'err') and any(
                        isinstance(v_, ast.Constant) and v_.value
                        for v_ in ast.walk(x.format_spec)):
                n += 1
                t = unparse(x.value)
                facts = facts_at(f, x)
                ok = (f'{t} is None', False) in facts or (
                    f'{t} is not None', True) in facts
                chk.check('C04.R25', f'checker.{q}', x, ok,
                          f'"{unparse(x)[:40]}" formats {t} with a format '
                          'specification; the field is None when the run '
                          'expired (e.g. the golden run under an explicit '
                          '--timeout): TypeError in the main process before '
                          'minimisation starts', loc=m.loc(x),
                          nontrivial=True)
    chk.instance('C04.R25', 'checker', f'{n} formatted nullable fields',
                 True, 'zero-count rule (witness: C04_41)')


def run(tier):
    prog = Program()
    chk = Check(
        PROP, 'other', tier,
        clauses_decided=[
            'containment of failures inside mutator code',
            'raise-freedom of the unprotected main-process code for: '
            'constant subscripts, get_ident, fixed-arity unpacking, '
            'None-dereference, parser stack pop, int()/float() of leaf '
            'text, asserts on input data',
            'exit-status plumbing of main() and of every entry point',
            'validation of user-supplied paths',
        ],
        clauses_not_decided=[
            'exceptions from the standard library on resources (ENOSPC, '
            'dead pool workers, undecodable input bytes)',
            'MemoryError inside workers; signals other than SIGINT',
            'RecursionError of Node.__str__ on > 900 nesting levels '
            '(informational)',
        ],
        assumptions=['leaf texts produced by the reader are non-empty'])
    cg, zone, via = compute_zone(prog)
    chk.extra['callgraph'] = {
        'functions': len(cg.funcs), 'edges': len(cg.edges),
        'resolved_call_sites': cg.resolved,
        'unresolved_call_sites': len(cg.unresolved)
    }
    if cg.resolved < 1200:
        raise AnalysisError(
            f'call graph resolved only {cg.resolved} call sites')
    chk.guard(rule_r1, chk, prog, cg, zone)
    chk.guard(rule_r2, chk, prog, cg, zone)
    chk.guard(rule_r3, chk, prog)
    chk.guard(rule_r4, chk, prog)
    chk.guard(rule_r5, chk, prog)
    chk.guard(rule_r7, chk, prog)
    chk.guard(rule_r8, chk, prog)
    chk.guard(rule_r9, chk, prog)
    chk.guard(rule_r10, chk, prog, cg)
    chk.guard(rule_r11, chk, prog, cg)
    chk.guard(rule_r13, chk, prog)
    chk.guard(rule_r14, chk, prog)
    chk.guard(rule_r15, chk, prog)
    chk.guard(rule_r16, chk, prog)
    chk.guard(rule_r17, chk, prog)
    # an interrupt must reach main()'s handler (status 1): shared with C06.R3
    from . import c06
    sub = Check('C06', 'other', tier, [], [])
    chk.guard(c06.rule_r3, sub, prog)
    chk.rule('C04.R6', 'an interrupt reaches main()\'s KeyboardInterrupt '
             'handler: no handler below swallows it (shared with C06.R3)')
    for r in sub.instances:
        chk.instance('C04.R6', r['where'], r['what'],
                     r['verdict'] == 'holds', r['argument'], nontrivial=True,
                     loc=r['loc'])
    for f_ in sub.findings:
        chk.violation('C04.R6', f_.where, f_.construct, f_.msg, f_.loc)
    # ddSMT never signals itself (shared with the self-signalling part of
    # C06.R4): it would end by a signal, without diagnostic
    sub4 = Check('C06', 'other', tier, [], [])
    from ..fileeffects import inventory as _inv
    chk.guard(c06.rule_r4, sub4, prog, _inv(prog))
    Check.restrict(sub4, lambda wh, what: any(
        k in what for k in ('os.kill', 'os.killpg', 'os.abort',
                            'raise_signal', 'os._exit')))
    chk.adopt('C04.R12', 'no signal is sent to ddSMT\'s own process or '
              'process group (shared with C06.R4): the run would end '
              'without completing and without a meaningful status', sub4)
    from .. import depthrec
    chk.guard(depthrec.report, chk, prog, 'C04.R18',
              'no function of the tree core that the main process runs on the whole input recurses over the nesting depth (directly, through helpers, generators, tuple comparison, deepcopy or the generic pickler)',
              None,
              'RecursionError in the main process: a traceback and exit status 1 instead of a completed run')
    # the validation of the match strings does not crash on a golden run
    # that expired (streams are None then)
    from . import c10 as _c10
    sub10 = Check('C10', 'other', tier, [], [])
    sub10.rule('C10.R3', 'nullness of golden streams')
    chk.guard(_c10.rule_nullness, sub10, prog)
    Check.restrict(sub10, lambda wh, what: 'do_golden_runs' in str(wh))
    chk.adopt('C04.R19', 'the golden-run validation reads a stream only '
              'where it is known not to be None (an expired golden run has '
              'none): no TypeError traceback in place of the one-line '
              'diagnostic (shared with C10.R3)', sub10)
    from .. import filenames
    chk.guard(filenames.report, chk, prog, 'C04.R20',
              'the names of the files ddSMT creates are assembled from '
              'counters, ids and the user\'s paths only - no free text '
              '(mutator descriptions, symbols)',
              'the main process ends with a traceback although input and command are fine')
    from .. import ctortext
    chk.guard(ctortext.report_asserts, chk, prog, 'C04.R21',
              'the assertions of the tree core test types and arities, never '
              'what the text of a leaf looks like',
              'AssertionError in the main process (or in every worker) on a legal input')
    chk.guard(rule_r22, chk, prog)
    chk.guard(rule_r23, chk, prog)
    chk.guard(rule_r24, chk, prog)
    chk.guard(rule_r25, chk, prog)
    extra = None
    if tier == 'thorough':
        from .. import selftest
        extra = selftest.run_for(PROP)
    return chk.finish(extra)
