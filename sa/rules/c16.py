"""C16 - inferred sorts and bit-widths are never wrong.

Partial, level 'other' (tables exhaustive): the case analyses of
smtlib._get_sort_aux / get_bv_width / get_default_constants are extracted as
tables and compared with the SMT-LIB theory signatures written down here;
plus sentinel ("unknown") propagation and table-construction obligations."""
import ast

from ..astutil import (call_name, calls_in, walk_no_nested, params_of, kw,
                       is_const, expand_locals, single_defs, global_decls)
from ..cfg import cfg_of, expr_owner_node, facts_at
from ..loader import Program, AnalysisError, unparse
from ..report import Check

PROP = 'C16'

# ----------------------------------------------------------- reference
BOOL_OPS = {
    'not', '=>', 'and', 'or', 'xor', '=', 'distinct',
    'bvult', 'bvule', 'bvugt', 'bvuge', 'bvslt', 'bvsle', 'bvsgt', 'bvsge',
    'fp.leq', 'fp.lt', 'fp.geq', 'fp.gt', 'fp.eq', 'fp.isNormal',
    'fp.isSubnormal', 'fp.isZero', 'fp.isInfinite', 'fp.isNaN',
    'fp.isNegative', 'fp.isPositive',
    '<=', '<', '>=', '>', 'is_int',
    'member', 'subset', 'set.member', 'set.subset',
    'str.<', 'str.in_re', 'str.<=', 'str.prefixof', 'str.suffixof',
    'str.contains', 'str.is_digit',
}
INT_OPS = {'div', 'mod', 'abs', 'to_int', 'str.len', 'str.indexof',
           'str.to_code', 'str.to_int', 'card', 'set.card', 'bv2nat'}
REAL_OPS = {'/', 'to_real', 'fp.to_real'}
ARG1_OPS = {'fp.abs', 'fp.max', 'fp.min', 'fp.neg', 'fp.rem', 'store'}
ARG2_OPS = {'fp.add', 'fp.div', 'fp.fma', 'fp.mul', 'fp.roundToIntegral',
            'fp.sqrt', 'fp.sub', 'ite'}
SAME_WIDTH = {'bvadd', 'bvand', 'bvashr', 'bvmul', 'bvnand', 'bvneg',
              'bvnor', 'bvnot', 'bvor', 'bvsdiv', 'bvshl', 'bvlshr',
              'bvsmod', 'bvsrem', 'bvsub', 'bvudiv', 'bvurem', 'bvxnor',
              'bvxor'}
# operators known to the code but not part of SMT-LIB: informational
NONSTANDARD = {'>>', 'bvshr'}


# SMT-LIB result sorts of operators a name pattern could admit (strings,
# regular expressions, sequences); used only for pattern branches
SORT_UNIVERSE = {}
for _o in BOOL_OPS:
    SORT_UNIVERSE[_o] = ('Bool', )
for _o in INT_OPS:
    SORT_UNIVERSE[_o] = ('Int', )
for _o in REAL_OPS:
    SORT_UNIVERSE[_o] = ('Real', )
for _o in ('str.++', 'str.at', 'str.substr', 'str.replace',
           'str.replace_all', 'str.replace_re', 'str.replace_re_all',
           'str.from_code', 'str.from_int', 'int.to.str'):
    SORT_UNIVERSE[_o] = ('String', )
for _o in ('str.to_re', 'str.to.re', 're.none', 're.all', 're.allchar',
           're.++', 're.union', 're.inter', 're.*', 're.comp', 're.diff',
           're.+', 're.opt', 're.range', 're.loop', 're.^'):
    SORT_UNIVERSE[_o] = ('RegLan', )
for _o in ('seq.len', 'seq.indexof'):
    SORT_UNIVERSE[_o] = ('Int', )
for _o in ('seq.contains', 'seq.prefixof', 'seq.suffixof'):
    SORT_UNIVERSE[_o] = ('Bool', )


def ref_sort(op):
    if op in BOOL_OPS:
        return ('Bool', )
    if op in INT_OPS:
        return ('Int', )
    if op in REAL_OPS:
        return ('Real', )
    if op in ARG1_OPS:
        return ('sortof', 1)
    if op in ARG2_OPS:
        return ('sortof', 2)
    if op in ('+', '-', '*'):
        return ('arith', )
    if op == 'fp':
        return ('FP', 'w(2)', '1+w(3)')
    if op == 'select':
        return ('arrayelem', 2)
    # standard string / regular-expression / sequence operators with a fixed
    # result sort (an operator filed under the wrong result sort, e.g.
    # str.from_int among the Int operators, is a table cell like any other)
    return SORT_UNIVERSE.get(op)


# ----------------------------------------------------------- polynomials
def poly_of(e, env):
    """Polynomial (dict monomial-tuple -> coef) of an integer expression
    over the symbols produced by ``env(expr)``."""
    if isinstance(e, ast.Constant) and isinstance(e.value, int):
        return {(): e.value}
    s = env(e)
    if s is not None:
        return {(s, ): 1}
    if isinstance(e, ast.BinOp):
        a, b = poly_of(e.left, env), poly_of(e.right, env)
        if isinstance(e.op, ast.Add):
            r = dict(a)
            for k, v in b.items():
                r[k] = r.get(k, 0) + v
            return {k: v for k, v in r.items() if v}
        if isinstance(e.op, ast.Sub):
            r = dict(a)
            for k, v in b.items():
                r[k] = r.get(k, 0) - v
            return {k: v for k, v in r.items() if v}
        if isinstance(e.op, ast.Mult):
            r = {}
            for k1, v1 in a.items():
                for k2, v2 in b.items():
                    k = tuple(sorted(k1 + k2))
                    r[k] = r.get(k, 0) + v1 * v2
            return {k: v for k, v in r.items() if v}
    if isinstance(e, ast.Call) and call_name(e) == 'int' and len(
            e.args) == 1:
        return poly_of(e.args[0], env)
    raise AnalysisError(f'width expression not polynomial: {unparse(e)}')


def poly_str(p):
    if not p:
        return '0'
    out = []
    for k in sorted(p, key=lambda k: (len(k), k)):
        c = p[k]
        mono = '*'.join(k)
        if not k:
            out.append(str(c))
        elif c == 1:
            out.append(mono)
        else:
            out.append(f'{c}*{mono}')
    return ' + '.join(out)


# ------------------------------------------------------------- helpers
_CUR_MOD = [None]


def _ops_of_test(test, identvar):
    """Operator names selected by a branch test (ident in [...], ident ==
    'x', is_operator_app(node, 'x'), is_indexed_operator_app(node, 'x'[,k])
    ; `or` of such)."""
    ops = []
    kind = None
    parts = test.values if isinstance(test, ast.BoolOp) and isinstance(
        test.op, ast.Or) else [test]
    for t in parts:
        if isinstance(t, ast.BoolOp) and isinstance(t.op, ast.And):
            # is_operator_app(node, 'ite') and len(node) > 2
            t = t.values[0]
        if isinstance(t, ast.Compare) and len(t.ops) == 1 and unparse(
                t.left) == identvar:
            if isinstance(t.ops[0], ast.In) and isinstance(
                    t.comparators[0], (ast.List, ast.Tuple, ast.Set)):
                ops += [c.value for c in t.comparators[0].elts]
                kind = 'plain'
            elif isinstance(t.ops[0], ast.In) and isinstance(
                    t.comparators[0], ast.Name) and _CUR_MOD[0] is not None:
                try:
                    from ..astutil import module_const
                    ops += list(module_const(_CUR_MOD[0],
                                             t.comparators[0]))
                    kind = 'plain'
                except (ValueError, TypeError):
                    return None, None
            elif isinstance(t.ops[0], ast.Eq) and is_const(t.comparators[0]):
                ops.append(t.comparators[0].value)
                kind = 'plain'
            else:
                return None, None
        elif isinstance(t, ast.Call) and call_name(t) == 'is_operator_app' \
                and len(t.args) == 2 and is_const(t.args[1]):
            ops.append(t.args[1].value)
            kind = 'plain'
        elif isinstance(t, ast.Call) and call_name(
                t) == 'is_indexed_operator_app' and len(
                    t.args) >= 2 and is_const(t.args[1]):
            ops.append(t.args[1].value)
            kind = 'indexed'
        else:
            return None, None
    return ops, kind


def _abstract_sort_result(f, ret, param):
    """Abstract value of a ``return`` expression of _get_sort_aux."""
    v = ret.value
    if v is None or (is_const(v) and v.value is None):
        return ('unknown', )
    t = unparse(v)
    if t in ("Node('Bool')", ):
        return ('Bool', )
    if t == "Node('Int')":
        return ('Int', )
    if t == "Node('Real')":
        return ('Real', )
    if isinstance(v, ast.Call) and call_name(v) == 'Node' and len(
            v.args) == 1 and is_const(v.args[0]) and isinstance(
                v.args[0].value, str):
        return (v.args[0].value, )
    if isinstance(v, ast.Call) and call_name(v) == 'get_sort' and isinstance(
            v.args[0], ast.Subscript) and unparse(
                v.args[0].value) == param and is_const(v.args[0].slice):
        return ('sortof', v.args[0].slice.value)
    return ('other', t)


# --------------------------------------------------------------------- R1
def rule_r1_r2(chk, prog):
    chk.rule('C16.R1', 'result-sort table of _get_sort_aux == SMT-LIB '
             'signatures (which operators return Bool/Int/Real, which '
             'argument carries the sort)')
    chk.rule('C16.R2', 'positional conventions: ite->2, fp.abs/neg/min/max/'
             'rem->1, rounding-mode operators->2, store->1, select->element '
             'sort of the array sort, fp->(w(arg2), 1+w(arg3))')
    m = prog.mod('smtlib')
    f, fname_ = table_function(m, 'fp.isNaN', '_get_sort_aux')
    where = f'smtlib.{fname_}'
    param = params_of(f)[0]
    nops = 0
    for st in ast.walk(f):
        if not isinstance(st, ast.If):
            continue
        ops, kind = _ops_of_test(st.test, 'ident')
        if not ops:
            continue
        rets = [r for r in ast.walk(st) if isinstance(r, ast.Return)
                and any(r in b_ for b_ in [list(ast.walk(x))
                                           for x in st.body])]
        # direct returns of the body only (not nested ifs for arith/select)
        direct = [s for s in st.body if isinstance(s, ast.Return)]
        for op in ops:
            nops += 1
            want = ref_sort(op)
            if op in NONSTANDARD:
                chk.info('C16.R1', f'operator {op!r} in the table is not an '
                         'SMT-LIB operator (informational)', loc=m.loc(st))
                continue
            if kind == 'indexed':
                continue
            if want is None:
                if op in ('divisible', ) or op.startswith('to_fp'):
                    continue
                chk.info('C16.R1', f'operator {op!r} has no entry in the '
                         'reference signature table', loc=m.loc(st))
                continue
            if want == ('arith', ):
                txt = unparse(st)
                ok = "== 'Real'" in txt and "== 'Int'" in txt and \
                    'return None' in txt
                chk.check('C16.R1', where, f'{op}: Real if an argument is '
                          'Real, Int if the first is Int, else unknown', ok,
                          'arithmetic result sort is not derived from the '
                          'argument sorts', loc=m.loc(st), nontrivial=True)
                continue
            if want[0] == 'FP':
                local = {unparse(s_.targets[0]): s_.value
                         for s_ in ast.walk(st) if isinstance(s_, ast.Assign)
                         and isinstance(s_.targets[0], ast.Name)}

                def env(e, local=local):
                    if isinstance(e, ast.Call) and call_name(
                            e) == 'get_bv_width' and isinstance(
                                e.args[0], ast.Subscript) and unparse(
                                    e.args[0].value) == param:
                        return f'w({e.args[0].slice.value})'
                    return None

                def expand(e, depth=0):
                    from ..astutil import subst
                    for _ in range(4):
                        e = subst(e, local)
                    return e

                fpnodes = [c for c in ast.walk(st) if isinstance(c, ast.Call)
                           and call_name(c) == 'Node' and len(c.args) == 4
                           and is_const(c.args[0], '_')
                           and is_const(c.args[1], 'FloatingPoint')]
                ok = len(fpnodes) == 1
                if ok:
                    try:
                        pe = poly_of(expand(fpnodes[0].args[2]), env)
                        ps_ = poly_of(expand(fpnodes[0].args[3]), env)
                        ok = pe == {('w(2)', ): 1} and ps_ == {
                            ('w(3)', ): 1, (): 1}
                    except AnalysisError:
                        ok = False
                chk.check('C16.R2', where, 'fp: (eb, sb) = (w(arg2), '
                          '1 + w(arg3))', ok,
                          'the sort of (fp s e m) is not (_ FloatingPoint '
                          'width(e) 1+width(m))', loc=m.loc(st),
                          nontrivial=True)
                continue
            if want[0] == 'arrayelem':
                subs = [r.value for r in ast.walk(st)
                        if isinstance(r, ast.Return)
                        and isinstance(r.value, ast.Subscript)]
                ok = len(subs) == 1 and is_const(subs[0].slice, want[1])
                got = subs[0].slice.value if subs and is_const(
                    subs[0].slice) else '?'
                asrc = [s for s in st.body if isinstance(s, ast.Assign)]
                ok = ok and asrc and unparse(asrc[0].value) == \
                    f'get_sort({param}[1])' and unparse(
                        subs[0].value) == unparse(asrc[0].targets[0])
                chk.check('C16.R2', where, f'select: component {got} of the '
                          'array sort', ok,
                          f'(select a i) is given component {got} of '
                          '(Array I E): index 1 is the INDEX sort I, the '
                          'element sort E is component 2 - e.g. a Boolean '
                          'array over Int is typed Int and "0" is proposed '
                          'for a Boolean term', loc=m.loc(st),
                          nontrivial=True)
                continue
            ret_ = direct[-1] if direct else None
            if ret_ is not None and ret_.value is not None:
                # a dispatch table indexed by the operator: specialise the
                # returned expression for this operator
                tabs = [x for x in ast.walk(ret_.value)
                        if isinstance(x, ast.Subscript) and isinstance(
                            x.value, ast.Name) and unparse(x.slice) in (
                                'ident', 'ident.data')
                        and len(m.globals.get(x.value.id, [])) == 1
                        and isinstance(m.globals[x.value.id][0], ast.Dict)]
                if tabs:
                    from ..astutil import clone as _clone
                    val = _clone(ret_.value)
                    for x in ast.walk(val):
                        if isinstance(x, ast.Subscript) and isinstance(
                                x.value, ast.Name) and unparse(x.slice) in (
                                    'ident', 'ident.data') and len(
                                        m.globals.get(x.value.id, [])) == 1:
                            d_ = m.globals[x.value.id][0]
                            for k_, v_ in zip(d_.keys, d_.values):
                                if isinstance(k_, ast.Constant) and \
                                        k_.value == op and isinstance(
                                            v_, ast.Constant):
                                    x.__class__ = ast.Constant
                                    x.__dict__.clear()
                                    x.value = v_.value
                                    x.kind = None
                    ret_ = ast.Return(value=val)
            got = _abstract_sort_result(f, ret_, param) if ret_ is not None \
                else ('other', 'no direct return')
            rule = 'C16.R2' if want[0] == 'sortof' else 'C16.R1'
            ok = got == want or got == ('unknown', )
            chk.check(rule, where, f'{op} -> {got}', ok,
                      f'operator {op} is given result {got}; SMT-LIB: {want}',
                      loc=m.loc(st), nontrivial=True)
    chk.floor('C16.R1', 'operators in the result-sort table', nops, 75)
    # branches that select operators by a pattern on the name instead of an
    # explicit list: every SMT-LIB operator the pattern admits (and no
    # earlier branch decides) must have the returned sort
    explicit = set()
    for st in ast.walk(f):
        if isinstance(st, ast.If):
            ops_, _k = _ops_of_test(st.test, 'ident')
            explicit.update(o for o in (ops_ or []) if isinstance(o, str))
    for st in ast.walk(f):
        if not isinstance(st, ast.If):
            continue
        pat = None
        for c in ast.walk(st.test):
            if isinstance(c, ast.Call) and isinstance(
                    c.func, ast.Attribute) and c.func.attr in (
                        'startswith', 'endswith') and c.args and is_const(
                            c.args[0]) and 'ident' in unparse(c.func.value):
                pat = (c.func.attr, c.args[0].value)
        if pat is None:
            continue
        direct = [s_ for s_ in st.body if isinstance(s_, ast.Return)]
        if not direct:
            continue
        got = _abstract_sort_result(f, direct[-1], param)
        admitted = [o for o in sorted(SORT_UNIVERSE)
                    if getattr(o, pat[0])(pat[1]) and o not in explicit]
        for o in admitted:
            want = SORT_UNIVERSE[o]
            ok = got == want or got == ('unknown', )
            chk.check('C16.R1', where, f'{pat[0]}({pat[1]!r}) admits {o} '
                      f'-> {got}', ok,
                      f'the branch "{unparse(st.test)[:60]}" gives every '
                      f'operator it admits the result {got}; SMT-LIB: {o} '
                      f'returns {want}', loc=m.loc(st), nontrivial=True)
    # ite (handled before ident)
    ites = [st for st in ast.walk(f) if isinstance(st, ast.If)
            and "is_operator_app(node, 'ite')" in unparse(st.test)]
    ok = len(ites) == 1 and isinstance(ites[0].body[0], ast.Return) and \
        unparse(ites[0].body[0].value) == f'get_sort({param}[2])'
    chk.check('C16.R2', where, 'ite -> sort of argument 2', ok,
              'the sort of (ite c t e) is not taken from t', loc=m.loc(f),
              nontrivial=True)
    # to_fp: indices in order
    tofp = [st for st in ast.walk(f) if isinstance(st, ast.If)
            and "'to_fp'" in unparse(st.test)]
    ok = len(tofp) == 1
    if ok:
        txt = unparse(tofp[0]).replace(' ', '')
        ok = "Node('_','FloatingPoint',idx[0],idx[1])" in txt
    chk.check('C16.R2', where, 'to_fp: (eb, sb) = indices in order', ok,
              'to_fp indices are not used as (eb, sb) in order',
              loc=m.loc(f), nontrivial=True)
    # leaves: declared symbols, constants
    txt = unparse(f)
    for lab, frag in (('bool const', "is_bool_const(node)"),
                      ('bv const', 'is_bv_const(node)'),
                      ('int const (not an index)',
                       'is_int_const(node) and (not is_index(node))'),
                      ('real const (not an index)',
                       'is_real_const(node) and (not is_index(node))')):
        chk.check('C16.R1', where, lab, frag in txt,
                  f'branch for {lab} missing', loc=m.loc(f))


# --------------------------------------------------------------------- R1w
def table_function(m, marker, default):
    _CUR_MOD[0] = m
    """The function of smtlib holding the operator table that mentions the
    string constant ``marker`` in an ``ident in [...]`` list (so that a
    cached wrapper / renamed helper does not hide the table)."""
    hits = []
    for q, f in m.funcs.items():
        for st in walk_no_nested(f):
            if isinstance(st, ast.If) and isinstance(
                    st.test, ast.Compare) and isinstance(
                        st.test.comparators[0], (ast.List, ast.Tuple,
                                                 ast.Set)):
                if any(is_const(e, marker)
                       for e in st.test.comparators[0].elts):
                    hits.append(q)
            elif isinstance(st, ast.If) and isinstance(
                    st.test, ast.Compare) and isinstance(
                        st.test.comparators[0], ast.Name):
                try:
                    from ..astutil import module_const
                    if marker in module_const(m, st.test.comparators[0]):
                        hits.append(q)
                except (ValueError, TypeError):
                    pass
    hits = list(dict.fromkeys(hits))
    if len(hits) != 1:
        raise AnalysisError(
            f'operator table containing {marker!r} found in {hits}; '
            f'expected exactly one function (pinned tree: {default})')
    return m.func(hits[0]), hits[0]


def rule_width(chk, prog):
    chk.rule('C16.R1', 'width table of get_bv_width == SMT-LIB bit-vector '
             'signatures (as polynomials in indices and argument widths)')
    m = prog.mod('smtlib')
    f, fname_ = table_function(m, 'bvadd', 'get_bv_width')
    where = f'smtlib.{fname_}'
    param = params_of(f)[0]

    branch = [None]

    def local_def(name):
        """Definition of a local inside the current branch (the same name
        may be reused by several branches)."""
        st_ = branch[0]
        if st_ is not None:
            ds = [a.value for a in ast.walk(st_) if isinstance(a, ast.Assign)
                  and isinstance(a.targets[0], ast.Name)
                  and a.targets[0].id == name]
            if len(ds) == 1:
                return ds[0]
        return single_defs(f).get(name)

    def env(e):
        # get_indices(node[0], X[, k])[i] -> I<i>; idx[i] with idx=get_indices
        if isinstance(e, ast.Subscript) and is_const(e.slice):
            base = e.value
            if isinstance(base, ast.Name):
                base = local_def(base.id) or base
            if isinstance(base, ast.Call) and call_name(
                    base) == 'get_indices':
                return f'i{e.slice.value}'
        if isinstance(e, ast.Call) and call_name(e) == 'get_bv_width' and \
                isinstance(e.args[0], ast.Subscript) and unparse(
                    e.args[0].value) == param and is_const(e.args[0].slice):
            return f'w({e.args[0].slice.value})'
        if isinstance(e, ast.Name):
            d = local_def(e.id)
            if d is not None:
                return env(d)
        return None

    REF = {
        'zero_extend': {('i0', ): 1, ('w(1)', ): 1},
        'sign_extend': {('i0', ): 1, ('w(1)', ): 1},
        'extract': {('i0', ): 1, ('i1', ): -1, (): 1},
        'repeat': {('i0', 'w(1)'): 1},
        'rotate_left': {('w(1)', ): 1},
        'rotate_right': {('w(1)', ): 1},
        'fp.to_ubv': {('i0', ): 1},
        'fp.to_sbv': {('i0', ): 1},
        'bvcomp': {(): 1},
    }
    n = 0
    for st in ast.walk(f):
        if not isinstance(st, ast.If):
            continue
        ops, kind = _ops_of_test(st.test, 'ident')
        if not ops:
            continue
        body_mod = ast.Module(body=list(st.body), type_ignores=[])
        rets = [s for s in ast.walk(body_mod) if isinstance(s, ast.Return)]
        branch[0] = body_mod
        for op in ops:
            n += 1
            if op in NONSTANDARD:
                chk.info('C16.R1', f'{op!r} is not an SMT-LIB operator '
                         '(informational; the standard name is bvlshr)',
                         loc=m.loc(st))
                continue
            if op == 'concat':
                txt = ' '.join(unparse(r.value) for r in rets if r.value)
                btxt = unparse(body_mod)
                ok = 'sum(' in txt and f'{param}[1:]' in btxt and \
                    'get_bv_width' in btxt
                if not ok:
                    # accumulating loop: T = 0; for x in node[1:]:
                    #   T += get_bv_width(x) (possibly through a local)
                    for lp in ast.walk(body_mod):
                        if not (isinstance(lp, ast.For) and unparse(
                                lp.iter) == f'{param}[1:]' and isinstance(
                                    lp.target, ast.Name)):
                            continue
                        lv = lp.target.id
                        ldefs = {a.targets[0].id: a.value
                                 for a in ast.walk(lp)
                                 if isinstance(a, ast.Assign)
                                 and isinstance(a.targets[0], ast.Name)}
                        for a in ast.walk(lp):
                            if isinstance(a, ast.AugAssign) and isinstance(
                                    a.op, ast.Add) and isinstance(
                                        a.target, ast.Name):
                                v = a.value
                                if isinstance(v, ast.Name) and v.id in ldefs:
                                    v = ldefs[v.id]
                                acc = a.target.id
                                init = [x for x in ast.walk(body_mod)
                                        if isinstance(x, ast.Assign)
                                        and unparse(x.targets[0]) == acc
                                        and is_const(x.value, 0)]
                                if unparse(v) == f'get_bv_width({lv})' and \
                                        init and any(
                                            r.value is not None and unparse(
                                                r.value) == acc
                                            for r in rets):
                                    ok = True
                chk.check('C16.R1', where, 'concat -> sum of the widths of '
                          'all arguments', ok, 'concat width is not the sum '
                          f'over {param}[1:]', loc=m.loc(st), nontrivial=True)
                continue
            if op == 'ite':
                txt = unparse(body_mod)
                ok = f'get_bv_width({param}[2])' in txt
                chk.check('C16.R1', where, 'ite -> width of argument 2', ok,
                          'ite width not taken from the then-branch',
                          loc=m.loc(st), nontrivial=True)
                continue
            ref = REF.get(op)
            if ref is None and op in SAME_WIDTH:
                ref = {('w(1)', ): 1}
            if ref is None:
                chk.check('C16.R1', where, f'{op}', False,
                          f'operator {op!r} is in the width table but its '
                          'width is not the width of argument 1 by any '
                          'SMT-LIB signature known to the checker (e.g. a '
                          'predicate such as bvult returns Bool)',
                          loc=m.loc(st), nontrivial=True)
                continue
            # the value returned for a *known* operand width: last return
            vals = [r.value for r in rets if r.value is not None and not (
                isinstance(r.value, ast.UnaryOp) or (is_const(r.value)
                                                     and r.value.value == -1))]
            ok = bool(vals)
            got = None
            if ok:
                try:
                    got = poly_of(vals[-1], env)
                    ok = got == ref
                except AnalysisError as e:
                    ok = False
                    got = str(e)
            chk.check('C16.R1', where, f'{op} -> '
                      f'{poly_str(got) if isinstance(got, dict) else got}',
                      ok, f'width of {op} is computed as '
                      f'{poly_str(got) if isinstance(got, dict) else got}; '
                      f'SMT-LIB: {poly_str(ref)}', loc=m.loc(st),
                      nontrivial=True)
    chk.floor('C16.R1', 'operators in the width table', n, 28)
    # constants and declared symbols: a return whose value (locals
    # expanded) has the documented form under the facts that select the case
    from ..astutil import expand_locals

    def digits_form(e):
        """(a, b) with e == a * len(<param>.data) + b, or None"""
        if isinstance(e, ast.Constant) and isinstance(
                e.value, int) and not isinstance(e.value, bool):
            return (0, e.value)
        if isinstance(e, ast.Call) and call_name(e) == 'len' and len(
                e.args) == 1:
            a = e.args[0]
            if unparse(a) == f'{param}.data':
                return (1, 0)
            if isinstance(a, ast.Subscript) and unparse(
                    a.value) == f'{param}.data' and isinstance(
                        a.slice, ast.Slice) and a.slice.upper is None and \
                    a.slice.step is None and isinstance(
                        a.slice.lower, ast.Constant) and isinstance(
                            a.slice.lower.value, int) and \
                    a.slice.lower.value >= 0:
                return (1, -a.slice.lower.value)
            return None
        if isinstance(e, ast.BinOp):
            l_, r_ = digits_form(e.left), digits_form(e.right)
            if l_ is None or r_ is None:
                return None
            if isinstance(e.op, ast.Add):
                return (l_[0] + r_[0], l_[1] + r_[1])
            if isinstance(e.op, ast.Sub):
                return (l_[0] - r_[0], l_[1] - r_[1])
            if isinstance(e.op, ast.Mult):
                if l_[0] == 0:
                    return (l_[1] * r_[0], l_[1] * r_[1])
                if r_[0] == 0:
                    return (l_[0] * r_[1], l_[1] * r_[1])
            if isinstance(e.op, ast.LShift) and r_[0] == 0 and r_[1] >= 0:
                return (l_[0] << r_[1], l_[1] << r_[1])
        return None

    LINEAR = {f'len({param}.data[2:])': (1, -2),
              f'len({param}.data[2:])*4': (4, -8),
              f'4*len({param}.data[2:])': (4, -8)}

    def has_return(value_forms, need):
        want_lin = {LINEAR[v_] for v_ in value_forms if v_ in LINEAR}
        for r in walk_no_nested(f):
            if not (isinstance(r, ast.Return) and r.value is not None):
                continue
            ev = expand_locals(f, r.value)
            v = unparse(ev).replace(' ', '')
            if v not in value_forms and not (
                    want_lin and digits_form(ev) in want_lin):
                continue
            facts = facts_at(f, r)
            if all(any(pol == p_ and t_.replace(' ', '') == t.replace(
                    ' ', '') for (t_, p_) in facts) for (t, pol) in need):
                return True
        return False

    d = f'{param}.data'
    cases = (
        ('#b: one bit per digit', {f'len({d}[2:])'},
         [(f"{d}.startswith('#b')", True)]),
        ('#x: four bits per digit', {f'len({d}[2:])*4', f'4*len({d}[2:])'},
         [(f"{d}.startswith('#b')", False)]),
        ('(_ bvN w): index 2', {f'int({param}[2].data)'},
         [(f'{param}.is_leaf()', False), (f'is_bv_const({param})', True)]),
        ('declared symbol: index 2 of its (_ BitVec w) sort',
         {f'int(__sort_lookup[{param}][2].data)'},
         [(f'is_bv_sort(__sort_lookup[{param}])', True)]),
    )
    for lab, forms, need in cases:
        chk.check('C16.R1', where, lab, has_return(forms, need),
                  f'width rule "{lab}" not found (no return of '
                  f'{sorted(forms)} under {need})', loc=m.loc(f),
                  nontrivial=True)


# --------------------------------------------------------------------- R3
GUARD_OK = ('> 0', '>= 0', '!= -1', '> -1', '>= 1')


def rule_r3(chk, prog):
    chk.rule('C16.R3', 'the "unknown" sentinel (-1 / None) never flows into '
             'arithmetic, a constructor or a returned width: every use of a '
             'recursive width is dominated by a test excluding it')
    m = prog.mod('smtlib')
    n = 0
    wf, wname = table_function(m, 'bvadd', 'get_bv_width')
    sf, sname = table_function(m, 'fp.isNaN', '_get_sort_aux')
    width_fns = {'get_bv_width', wname}
    for fname in dict.fromkeys([wname, sname, 'get_bv_width']):
        f = m.func(fname)
        where = f'smtlib.{fname}'
        param = params_of(f)[0]
        for c in ast.walk(f):
            is_direct = isinstance(c, ast.Call) and call_name(
                c) in width_fns
            is_mapped = isinstance(c, ast.Call) and call_name(c) in (
                'map', ) and c.args and unparse(c.args[0]) in width_fns
            if not (is_direct or is_mapped):
                continue
            par = getattr(c, '_parent', None)
            # pass-through: return get_bv_width(x)
            if isinstance(par, ast.Return):
                continue
            # under is_bv_const(node): definite
            facts = facts_at(f, c)
            if (f'is_bv_const({param})', True) in facts and unparse(
                    c.args[0]) == param:
                continue
            n += 1
            # where does the value go?
            holder = None
            while isinstance(par, (ast.ListComp, ast.GeneratorExp,
                                   ast.comprehension)) or (
                                       isinstance(par, ast.Call)
                                       and call_name(par) in ('list',
                                                              'tuple')):
                par = getattr(par, '_parent', None)
            if isinstance(par, ast.Assign) and isinstance(
                    par.targets[0], ast.Name):
                holder = par.targets[0].id
                uses = [x for x in ast.walk(f) if isinstance(x, ast.Name)
                        and x.id == holder and isinstance(x.ctx, ast.Load)]
            else:
                uses = [c]
            bad = None
            for u in uses:
                up = getattr(u, '_parent', None)
                risky = isinstance(up, ast.BinOp) or (
                    isinstance(up, ast.Call) and call_name(up) in (
                        'Node', 'sum', 'str', 'min', 'max')) or isinstance(
                            up, ast.Return) and holder is not None and False
                if isinstance(up, ast.Return) and holder is not None:
                    risky = False  # returning the sentinel itself is fine
                if isinstance(up, ast.Compare):
                    continue
                if not risky:
                    continue
                ufacts = facts_at(f, u)
                name = holder if holder else None
                guarded = False
                if name:
                    for (t, pol) in ufacts:
                        if pol and any(t == f'{name} {g}'
                                       for g in GUARD_OK):
                            guarded = True
                        if not pol and t in (f'{name} == -1', f'{name} < 0',
                                             f'{name} <= 0', f'{name} < 1'):
                            guarded = True
                        if not pol and t.startswith('-1 in ') or (
                                not pol and t.startswith('any(')
                                and name in t):
                            guarded = True
                if not guarded:
                    bad = u
                    break
            ok = bad is None
            what = unparse(getattr(bad, '_parent', bad)) if bad is not None \
                else unparse(c)
            chk.check('C16.R3', where, f'{unparse(c)} used in {what[:60]}',
                      ok, f'the width returned by {unparse(c)} may be the '
                      '"unknown" sentinel -1 (operand is an uninterpreted '
                      'function application, a variable of unknown sort, '
                      '...) and is used unguarded: a definite WRONG width '
                      'results (concat x (f 1)) -> (_ BitVec 3) for 4+4 '
                      'bits; repeat -> negative width', loc=m.loc(c),
                      nontrivial=True)
    chk.floor('C16.R3', 'uses of recursive widths', n, 5)
    # get_sort results used as sorts must be None-checked where a Node is
    # built from them / where they are subscripted
    f = m.func('_get_sort_aux')
    for c in ast.walk(f):
        if isinstance(c, ast.Subscript) and isinstance(c.value, ast.Name):
            d = single_defs(f).get(c.value.id)
            if isinstance(d, ast.Call) and call_name(d) == 'get_sort':
                facts = facts_at(f, c)
                ok = any(pol and t.startswith('is_array_sort(')
                         for (t, pol) in facts) or (
                             f'{c.value.id} is None', False) in facts
                chk.check('C16.R3', 'smtlib._get_sort_aux', c, ok,
                          'a possibly unknown (None) sort is subscripted',
                          loc=m.loc(c), nontrivial=True)


# --------------------------------------------------------------------- R4
FP_REF = {'Float16': (5, 11), 'Float32': (8, 24), 'Float64': (11, 53),
          'Float128': (15, 113)}


def _subst_name(e, name, val):
    import copy

    class S(ast.NodeTransformer):

        def visit_Name(self, n):
            if n.id == name and isinstance(n.ctx, ast.Load):
                return copy.deepcopy(val)
            return n

    return S().visit(copy.deepcopy(e))


def rule_r4(chk, prog):
    chk.rule('C16.R4', 'default constants are of the requested sort (Bool, '
             'Int, Real, same bit-width, FP field widths 1/eb/sb-1; short '
             'FP names agree with the FPShortSort table)')
    m = prog.mod('smtlib')
    f = m.func('get_default_constants')
    where = 'smtlib.get_default_constants'
    param = params_of(f)[0]
    want = {"'Bool'": ["Node('false')", "Node('true')"],
            "'Int'": ["Node('0')", "Node('1')"],
            "'Real'": ["Node('0.0')", "Node('1.0')"]}
    for st in f.body:
        if isinstance(st, ast.If) and isinstance(st.test, ast.Compare) and \
                unparse(st.test.left) == param and len(
                    st.test.comparators) == 1:
            k = unparse(st.test.comparators[0])
            if k in want:
                val = st.body[0].value
                if isinstance(val, ast.ListComp) and len(
                        val.generators) == 1 and not val.generators[
                            0].ifs and isinstance(
                                val.generators[0].target, ast.Name) and \
                        isinstance(val.generators[0].iter,
                                   (ast.Tuple, ast.List)):
                    # [Node(v) for v in ('false', 'true')]: written out
                    g_ = val.generators[0]
                    val = ast.List(elts=[
                        _subst_name(val.elt, g_.target.id, x)
                        for x in g_.iter.elts], ctx=ast.Load())
                if not isinstance(val, (ast.List, ast.Tuple)):
                    raise AnalysisError(
                        f'C16.R4: {m.loc(st)}: the default constants of '
                        f'{k} are not a list display')
                got = [unparse(e) for e in val.elts]
                chk.check('C16.R4', where, f'{k} -> {got}', got == want[k],
                          f'default constants of sort {k} are {got}',
                          loc=m.loc(st), nontrivial=True)
                want.pop(k)
    chk.check('C16.R4', where, 'Bool/Int/Real branches present', not want,
              f'missing branches for {sorted(want)}', loc=m.loc(f))
    # parametric sorts: the constants put into a container are those of the
    # parameter the container's constructor takes (SMT-LIB signatures:
    # (Set E): singleton : E -> (Set E); (Array I E): (as const (Array I E))
    # : E -> (Array I E); (Seq E): seq.unit : E -> (Seq E))
    PARAM_OF = {'is_set_sort': ('Set', 1), 'is_array_sort': ('Array', 2),
                'is_seq_sort': ('Seq', 1)}
    nrec = 0
    for c in calls_in(f):
        if call_name(c) != f.name or not c.args:
            continue
        a = c.args[0]
        if not (isinstance(a, ast.Subscript) and unparse(a.value) == param
                and isinstance(a.slice, ast.Constant)):
            raise AnalysisError(
                f'C16.R4: {m.loc(c)}: recursive call on "{unparse(a)}", '
                'not on a parameter of the sort')
        nrec += 1
        guards = [t.split('(')[0] for (t, pol) in facts_at(f, c)
                  if pol and t.endswith(f'({param})')
                  and t.split('(')[0] in PARAM_OF]
        if len(guards) != 1:
            raise AnalysisError(
                f'C16.R4: {m.loc(c)}: the container sort of the recursive '
                f'call is not recognised (guards {guards})')
        ctor, k = PARAM_OF[guards[0]]
        chk.check('C16.R4', where, f'({ctor} ..): element constants from '
                  f'{unparse(a)}', a.slice.value == k,
                  f'the constants placed into a ({ctor} ..) value are the '
                  f'default constants of {unparse(a)}, but the constructor '
                  f'takes a value of parameter {k} of the sort: for sorts '
                  'whose parameters differ the proposed term is ill-sorted',
                  loc=m.loc(c), nontrivial=True)
    chk.floor('C16.R4', 'recursive default constants (containers)', nrec, 1)
    txt = unparse(f).replace(' ', '')
    ok = f"[Node('_',c,{param}[2])forcin['bv0','bv1']]" in txt or \
        f"[Node('_','bv0',{param}[2]),Node('_','bv1',{param}[2])]" in txt
    chk.check('C16.R4', where, 'bit-vector constants keep the width of the '
              'sort', ok, 'bit-vector default constants do not reuse index 2 '
              'of the requested sort', loc=m.loc(f), nontrivial=True)
    # ---- floating point: field widths.  The six constants are
    # Node('fp', S, E, M); E and M are built with a width argument; the
    # origins of those width values (through locals, tuple unpacking and one
    # level of helper functions) are constants guarded by a short sort name,
    # or read off the long sort form.
    from ..astutil import subst as _subst

    def assigns_of(fn, name):
        out = []
        for st in ast.walk(fn):
            if isinstance(st, ast.Assign):
                for t in st.targets:
                    if isinstance(t, ast.Name) and t.id == name:
                        out.append((st, st.value, None))
                    elif isinstance(t, ast.Tuple):
                        for i_, x in enumerate(t.elts):
                            if isinstance(x, ast.Name) and x.id == name:
                                out.append((st, st.value, i_))
        return out

    def short_name_at(fn, site):
        """FloatN established at ``site`` by a dominating comparison (after
        alias expansion) or by an assert earlier in the same block."""
        names = set()
        for (t, pol) in facts_at(fn, site):
            if pol and '==' in t:
                for nm in FP_REF:
                    if t.endswith(f"== '{nm}'") or t.startswith(f"'{nm}' =="):
                        names.add(nm)
        if names:
            return names
        st = site
        while st is not None and not isinstance(st, ast.stmt):
            st = getattr(st, '_parent', None)
        par = getattr(st, '_parent', None)
        for fld in ('body', 'orelse'):
            blk = getattr(par, fld, None)
            if isinstance(blk, list) and st in blk:
                for prev in blk[:blk.index(st)]:
                    if isinstance(prev, ast.Assert):
                        for nm in FP_REF:
                            if f"'{nm}'" in unparse(prev.test):
                                names.add(nm)
        return names

    def origins(fn, e, depth=0):
        """[(kind, value, short names)] for a width expression."""
        if depth > 5:
            return [('unknown', unparse(e), set())]
        if isinstance(e, ast.Constant) and isinstance(e.value, int):
            return [('const', e.value, short_name_at(fn, e))]
        if isinstance(e, ast.Name):
            res = []
            if e.id in params_of(fn):
                return [('param', e.id, set())]
            for (st, v, idx) in assigns_of(fn, e.id):
                if idx is None:
                    res += origins(fn, v, depth + 1)
                elif isinstance(v, ast.Tuple) and idx < len(v.elts):
                    res += origins(fn, v.elts[idx], depth + 1)
                elif isinstance(v, ast.Call) and call_name(v) in m.funcs:
                    h = m.funcs[call_name(v)]
                    hp = params_of(h)
                    env = dict(zip(hp, v.args))
                    for r in ast.walk(h):
                        if isinstance(r, ast.Return) and isinstance(
                                r.value, ast.Tuple) and idx < len(
                                    r.value.elts):
                            for (k_, val, nms) in origins(
                                    h, r.value.elts[idx], depth + 1):
                                if k_ == 'expr':
                                    val = unparse(_subst(
                                        ast.parse(val, mode='eval').body,
                                        env))
                                res.append((k_, val, nms))
                elif isinstance(v, ast.Subscript) and isinstance(
                        v.value, ast.Name) and len(m.globals.get(
                            v.value.id, [])) == 1 and isinstance(
                                m.globals[v.value.id][0], ast.Dict):
                    # ew, sw = TABLE[<name>]: one origin per table row
                    tab = m.globals[v.value.id][0]
                    for k_, row in zip(tab.keys, tab.values):
                        if isinstance(k_, ast.Constant) and isinstance(
                                row, (ast.Tuple, ast.List)) and idx < len(
                                    row.elts) and isinstance(
                                        row.elts[idx], ast.Constant):
                            res.append(('const', row.elts[idx].value,
                                        {k_.value} if k_.value in FP_REF
                                        else set()))
                        else:
                            res.append(('unknown', unparse(row), set()))
                elif isinstance(v, ast.Call) and isinstance(
                        v.func, ast.Attribute) and v.func.attr == 'get' \
                        and isinstance(v.func.value, ast.Name) and len(
                            m.globals.get(v.func.value.id, [])) == 1 and \
                        isinstance(m.globals[v.func.value.id][0],
                                   ast.Dict) and len(v.args) == 2:
                    # ew, sw = TABLE.get(<name>, DEFAULT): the rows, and the
                    # default for every short name the table does not list
                    tab = m.globals[v.func.value.id][0]
                    listed = set()
                    for k_, row in zip(tab.keys, tab.values):
                        if isinstance(k_, ast.Constant) and isinstance(
                                row, (ast.Tuple, ast.List)) and idx < len(
                                    row.elts) and isinstance(
                                        row.elts[idx], ast.Constant):
                            listed.add(k_.value)
                            res.append(('const', row.elts[idx].value,
                                        {k_.value} if k_.value in FP_REF
                                        else set()))
                        else:
                            res.append(('unknown', unparse(row), set()))
                    dfl = v.args[1]
                    if isinstance(dfl, ast.Name) and len(m.globals.get(
                            dfl.id, [])) == 1:
                        dfl = m.globals[dfl.id][0]
                    if isinstance(dfl, (ast.Tuple, ast.List)) and idx < len(
                            dfl.elts) and isinstance(dfl.elts[idx],
                                                     ast.Constant):
                        rest = set(FP_REF) - listed
                        # an assert / test in front narrows the rest
                        guard = short_name_at(fn, st)
                        res.append(('const', dfl.elts[idx].value,
                                    (rest & guard) if guard else rest))
                    else:
                        res.append(('unknown', unparse(v.args[1]), set()))
                else:
                    res.append(('unknown', unparse(v), set()))
            return res or [('unknown', e.id, set())]
        return [('expr', unparse(e), set())]

    fps = [c for c in calls_in(f) if call_name(c) == 'Node' and c.args
           and is_const(c.args[0], 'fp')]
    chk.floor('C16.R4', 'fp default constants', len(fps), 6)
    okf = True
    exp_w, sig_w = [], []
    for c in fps:
        if len(c.args) != 4:
            okf = False
            continue
        widths = []
        for a in c.args[1:]:
            d = a
            if isinstance(a, ast.Name):
                ds = assigns_of(f, a.id)
                d = ds[0][1] if len(ds) == 1 else None
            if not (isinstance(d, ast.Call) and call_name(d) == 'Node'
                    and len(d.args) == 3):
                widths.append(None)
            else:
                widths.append(d.args[2])
        if any(w is None for w in widths):
            okf = False
            continue
        okf = okf and is_const(widths[0], 1)
        exp_w.append(widths[1])
        sig_w.append(widths[2])
    chk.check('C16.R4', where, 'fp constants are (sign of width 1, '
              'exponent, significand) in this order', okf,
              'an fp default constant is not built from three bit-vector '
              'nodes (sign of width 1, exponent, significand)',
              loc=m.loc(f), nontrivial=True)
    for role, ws, idx_long, delta in (('exponent', exp_w, -2, 0),
                                      ('significand', sig_w, -1, -1)):
        got = {}
        long_ok = False
        unknown = []
        for w in ws:
            for (k_, val, nms) in origins(f, w):
                if k_ == 'const':
                    for nm in nms:
                        got.setdefault(nm, set()).add(val)
                    if not nms:
                        unknown.append(f'constant {val} without a sort name')
                elif k_ == 'expr':
                    v0 = val.replace(' ', '')
                    want_long = f'int({param}[{idx_long}].data)' + (
                        f'{delta}' if delta else '')
                    want_raw = f'{param}[{idx_long}]' + (
                        f'{delta}' if delta else '')
                    if v0 == want_long:
                        long_ok = True
                    elif v0 != want_raw:
                        unknown.append(val)
                else:
                    unknown.append(f'{k_} {val}')
        for name, (eb, sb) in FP_REF.items():
            wantv = eb if role == 'exponent' else sb - 1
            g = got.get(name)
            chk.check('C16.R4', where, f'{name}: {role} width {g}',
                      g == {wantv},
                      f'{name} is (_ FloatingPoint {eb} {sb}); the {role} '
                      f'field of its constants must have width {wantv}, '
                      f'the code uses {sorted(g) if g else None}',
                      loc=m.loc(f), nontrivial=True)
        chk.check('C16.R4', where, f'(_ FloatingPoint eb sb): {role} width '
                  f'from index {idx_long}' + (' minus 1' if delta else ''),
                  long_ok and not unknown,
                  f'the {role} width for the long FP sort form is not '
                  f'int(sort[{idx_long}].data)' + (' - 1' if delta else '')
                  + (f' (also found: {unknown[:3]})' if unknown else ''),
                  loc=m.loc(f), nontrivial=True)
    # sibling table: FPShortSort.  A row is what one guard (or one literal
    # tuple / dict entry) associates with a short name.
    fm = prog.mod('mutators_fp')
    fs = fm.func('FPShortSort.mutations')
    tab = {}

    def ints_of(nodes_):
        out = []
        for x in nodes_:
            for c in ast.walk(x):
                par_ = getattr(c, '_parent', None)
                if isinstance(par_, ast.Subscript) and par_.slice is c:
                    continue  # an index, not a table entry
                if isinstance(c, ast.Constant) and isinstance(
                        c.value, (str, int)) and not isinstance(
                            c.value, bool) and str(c.value).isdigit():
                    out.append(int(c.value))
        return out

    scopes = [fm.tree]  # the method, its helpers and module-level tables
    for sc in scopes:
        for st in ast.walk(sc):
            if isinstance(st, ast.If):
                names = [c.value for b in st.body for c in ast.walk(b)
                         if isinstance(c, ast.Constant)
                         and c.value in FP_REF]
                nums = ints_of([st.test])
                if len(names) == 1 and len(nums) == 2:
                    tab[names[0]] = tuple(nums)
            elif isinstance(st, (ast.Tuple, ast.List)):
                names = [c.value for c in st.elts
                         if isinstance(c, ast.Constant)
                         and c.value in FP_REF]
                nums = ints_of([c for c in st.elts
                                if not (isinstance(c, ast.Constant)
                                        and c.value in FP_REF)])
                if len(names) == 1 and len(nums) == 2:
                    tab[names[0]] = tuple(nums)
            elif isinstance(st, ast.Dict):
                for k_, v_ in zip(st.keys, st.values):
                    if isinstance(k_, ast.Constant) and k_.value in FP_REF:
                        nums = ints_of([v_])
                        if len(nums) == 2:
                            tab[k_.value] = tuple(nums)
                    elif isinstance(v_, ast.Constant) and \
                            v_.value in FP_REF and k_ is not None:
                        nums = ints_of([k_])
                        if len(nums) == 2:
                            tab[v_.value] = tuple(nums)
                    elif isinstance(v_, (ast.Tuple, ast.List)) and \
                            k_ is not None:
                        # exponent width -> (significand width, name)
                        names = [c.value for c in v_.elts
                                 if isinstance(c, ast.Constant)
                                 and c.value in FP_REF]
                        nums = ints_of([k_]) + ints_of(
                            [c for c in v_.elts
                             if not (isinstance(c, ast.Constant)
                                     and c.value in FP_REF)])
                        if len(names) == 1 and len(nums) == 2:
                            tab[names[0]] = tuple(nums)
    # any other place that writes a short FP name out as (_ FloatingPoint
    # eb sb): the widths come from a table keyed by the short names, whose
    # rows must be the SMT-LIB pairs (the significand width counts the
    # hidden bit)
    for om in prog.pkg_modules():
        if 'tests' in om.rel():
            continue
        tabs = {}
        for st in ast.walk(om.tree):
            if isinstance(st, ast.Assign) and len(
                    st.targets) == 1 and isinstance(
                        st.targets[0], ast.Name) and isinstance(
                            st.value, ast.Dict) and st.value.keys and all(
                                isinstance(k_, ast.Constant)
                                and k_.value in FP_REF
                                for k_ in st.value.keys):
                tabs[st.targets[0].id] = st.value
        if not tabs:
            continue
        for c in ast.walk(om.tree):
            if not (isinstance(c, ast.Call) and call_name(c) in (
                    'Node', 'nodes.Node') and any(
                        isinstance(a, ast.Constant)
                        and a.value == 'FloatingPoint' for a in c.args)):
                continue
            used = [x.id for a in c.args for x in ast.walk(a)
                    if isinstance(x, ast.Name) and x.id in tabs]
            for tn in dict.fromkeys(used):
                rows = {}
                for k_, v_ in zip(tabs[tn].keys, tabs[tn].values):
                    nums = ints_of([v_])
                    rows[k_.value] = tuple(nums)
                okr = all(rows.get(n_) == FP_REF[n_] for n_ in rows)
                fn_ = getattr(c, '_parent', None)
                while fn_ is not None and not isinstance(
                        fn_, ast.FunctionDef):
                    fn_ = getattr(fn_, '_parent', None)
                chk.check('C16.R4', f'{om.name}.'
                          f'{fn_._qualname if fn_ is not None else ""}',
                          f'(_ FloatingPoint ..) from table {tn}', okr,
                          f'a short FP sort name is written out as (_ '
                          f'FloatingPoint eb sb) with the widths of table '
                          f'{tn} = {rows}; SMT-LIB: {FP_REF} (sb includes '
                          'the hidden bit): the two notations of one sort '
                          'are equated with a different sort',
                          loc=om.loc(c), nontrivial=True)
    chk.check('C16.R4', 'mutators_fp.FPShortSort.mutations',
              f'abbreviation table {tab}', tab == FP_REF,
              f'FPShortSort abbreviates {tab}; SMT-LIB: {FP_REF}',
              loc=fm.loc(fs), nontrivial=True)


def _binder_values(f, store):
    """Possible values of the stored expression: the expression itself, or
    - for a local name - every value assigned to it inside the innermost
    enclosing loop (e.g. sort = get_sort(term) / sort = None in a handler);
    a name bound by tuple unpacking stands for itself."""
    v = store.value
    if not isinstance(v, ast.Name):
        return {unparse(v)}
    lp = getattr(store, '_parent', None)
    while lp is not None and not isinstance(lp, (ast.For, ast.FunctionDef)):
        lp = getattr(lp, '_parent', None)
    vals = set()
    for st in ast.walk(lp):
        if isinstance(st, ast.Assign):
            for t in st.targets:
                if isinstance(t, ast.Name) and t.id == v.id:
                    vals.add(unparse(st.value))
                if isinstance(t, ast.Tuple) and any(
                        isinstance(x, ast.Name) and x.id == v.id
                        for x in t.elts):
                    vals.add(v.id)
    return vals or {v.id}


# -------------------------------------------------------------------- R12
def rule_r12(chk, prog):
    chk.rule('C16.R12', 'an operator name selects its rule by equality: in '
             'the sort and width inference an identifier is compared with '
             '==, "in" or a full regular-expression match, never with '
             're.match / search on an unanchored pattern (prefix or '
             'substring semantics give (origin i) the sort of "or")')
    m = prog.mod('smtlib')
    n = 0
    for fname in ('_get_sort_aux', 'get_bv_width', 'get_sort'):
        if fname not in m.funcs:
            continue
        f = m.funcs[fname]
        for c in ast.walk(f):
            if not isinstance(c, ast.Call):
                continue
            nm = call_name(c) or ''
            how = None
            pat = None
            subj = None
            if nm in ('re.match', 're.search') and len(c.args) >= 2:
                how, pat, subj = nm.split('.')[1], c.args[0], c.args[1]
            elif isinstance(c.func, ast.Attribute) and c.func.attr in (
                    'match', 'search') and c.args and isinstance(
                        c.func.value, ast.Name) and len(m.globals.get(
                            c.func.value.id, [])) == 1:
                how, subj = c.func.attr, c.args[0]
                d = m.globals[c.func.value.id][0]
                if isinstance(d, ast.Call) and call_name(
                        d) == 're.compile' and d.args:
                    pat = d.args[0]
                else:
                    pat = d  # built by a helper: not a literal
            if how is None:
                continue
            n += 1
            anchored = isinstance(pat, ast.Constant) and isinstance(
                pat.value, str) and pat.value.endswith(('$', '\\Z')) and (
                    how == 'match' or pat.value.startswith('^')) and \
                '|' not in pat.value
            chk.check('C16.R12', f'smtlib.{fname}', c, anchored,
                      f'"{unparse(c)[:60]}" selects an inference rule by '
                      f're.{how} on a pattern that is not anchored at both '
                      'ends: every identifier that merely starts with (or '
                      'contains) an operator name gets that operator\'s '
                      'sort - (origin i) becomes Bool because of "or", '
                      '(modulus x) Int because of "mod"', loc=m.loc(c),
                      nontrivial=True)
    chk.instance('C16.R12', 'scope', f'{n} regular-expression tests in the '
                 'inference functions', True, 'zero-count rule (witness: '
                 'C16_26)')


# -------------------------------------------------------------------- R11
NUM_POS = ('0', '7', '12', '007')
DEC_POS = ('1.5', '0.25', '10.0')
NUM_NEG = ('inf', 'nan', 'infinity', 'Infinity', 'NaN', '+1', '-1', '.5',
           '1e5', '1E5', '1_0', '\u0661\u0662', 'x', '1x', 'x1', '', ' 1',
           '0x10', '1.2.3', '1,5', 'true', '#b01')


def rule_r11(chk, prog):
    chk.rule('C16.R11', 'the predicates that make a leaf an Int / Real '
             'constant accept only SMT-LIB numerals and decimals: the leaf '
             'is judged by a regular expression whose matches (on a probe '
             'set) are digit strings with at most one inner ".", never by '
             'float() / int() / str.isdigit(), which also accept "inf", '
             '"nan", signs, exponents, underscores and non-ASCII digits - '
             'all of them legal SMT-LIB symbols of other sorts')
    import re as _re
    m = prog.mod('smtlib')
    n = 0
    for pname, want_dec in (('is_int_const', False), ('is_real_const', True),
                            ('is_arith_const', True)):
        f = m.func(pname)
        where = f'smtlib.{pname}'
        # the function and the module-level helpers it calls (depth 2)
        scopes = [f]
        for c in calls_in(f):
            if isinstance(c.func, ast.Name) and c.func.id in m.funcs and \
                    c.func.id not in ('is_int_const', 'is_real_const',
                                      'is_arith_const'):
                scopes.append(m.funcs[c.func.id])
        pats = []
        lax = []
        for sc in scopes:
            for c in ast.walk(sc):
                if not isinstance(c, ast.Call):
                    continue
                nm = call_name(c) or ''
                if nm in ('re.match', 're.fullmatch', 're.search') and \
                        c.args and isinstance(c.args[0], ast.Constant):
                    pats.append((c, c.args[0].value, nm.split('.')[1]))
                elif isinstance(c.func, ast.Attribute) and c.func.attr in (
                        'match', 'fullmatch', 'search') and isinstance(
                            c.func.value, ast.Name) and len(m.globals.get(
                                c.func.value.id, [])) == 1:
                    d = m.globals[c.func.value.id][0]
                    if isinstance(d, ast.Call) and call_name(
                            d) == 're.compile' and d.args and isinstance(
                                d.args[0], ast.Constant):
                        pats.append((c, d.args[0].value, c.func.attr))
                elif nm in ('float', 'int', 'decimal.Decimal',
                            'fractions.Fraction', 'Fraction', 'Decimal') or (
                                isinstance(c.func, ast.Attribute)
                                and c.func.attr in ('isdigit', 'isnumeric',
                                                    'isdecimal', 'isalnum')):
                    lax.append(c)
        for c in lax:
            n += 1
            chk.check('C16.R11', where, c, False,
                      f'"{unparse(c)[:50]}" decides whether a leaf is a '
                      'numeric constant: float()/int()/isdigit() accept '
                      '"inf", "nan", "+1", "1e5", "1_0" or non-ASCII digits, '
                      'which are symbols of other sorts in SMT-LIB - such a '
                      'leaf is inferred to be Int/Real', loc=m.loc(c),
                      nontrivial=True)
        if not pats and not lax:
            # pure delegation to a sibling predicate of the same kind
            rets = [x for x in ast.walk(f) if isinstance(x, ast.Return)]
            sib = {'is_real_const': 'is_arith_const',
                   'is_arith_const': 'is_real_const'}.get(pname)
            if len(rets) == 1 and isinstance(
                    rets[0].value, ast.Call) and call_name(
                        rets[0].value) == sib and [
                            unparse(a) for a in rets[0].value.args] == \
                    params_of(f)[:1]:
                n += 1
                chk.instance('C16.R11', where, f'delegates to {sib}', True,
                             'judged there')
                continue
            if pname in ('is_int_const', 'is_real_const'):
                # written without a pattern (e.g. a character scan): the
                # predicate is judged on the probe leaves of C15.R14
                # ("1_0", "+1", "1e5", "inf", ".5" among them)
                n += 1
                chk.instance('C16.R11', where, 'no pattern: judged by '
                             'folding the predicate on the probe leaves '
                             '(C15.R14)', True, 'see C15.R14')
                continue
            raise AnalysisError(f'C16.R11: {where}: no regular expression '
                                'and no conversion found that judges the '
                                'leaf text')
        for (c, pat, how) in pats:
            n += 1
            try:
                fn_ = getattr(_re, how)
                acc = [t for t in NUM_NEG if fn_(pat, t) is not None]
                rej = [t for t in NUM_POS + (DEC_POS if want_dec else ())
                       if fn_(pat, t) is None]
                extra = [] if want_dec else [
                    t for t in DEC_POS if fn_(pat, t) is not None]
            except _re.error as e_:
                raise AnalysisError(f'C16.R11: {where}: pattern {pat!r}: '
                                    f'{e_}')
            chk.check('C16.R11', where, f're.{how}({pat!r})',
                      not acc and not rej and not extra,
                      f'the pattern {pat!r} (re.{how}) accepts {acc[:4]} / '
                      f'rejects {rej[:4]}'
                      + (f' / accepts decimals {extra[:2]} as Int'
                         if extra else '')
                      + ': leaves that are not numerals/decimals are '
                      'inferred to be Int/Real (or numerals are not)',
                      loc=m.loc(c), nontrivial=True)
    chk.floor('C16.R11', 'judgements of numeric leaf text', n, 3)


# --------------------------------------------------------------------- R5
def rule_r5(chk, prog):
    chk.rule('C16.R5', 'table construction: each declaration form stores '
             'the sort found at the position SMT-LIB puts it, under the '
             'symbol at position 1; datatype constructors under their own '
             'datatype; no loop variable is clobbered by a nested loop')
    m = prog.mod('smtlib')
    f = m.func('collect_information')
    where = 'smtlib.collect_information'
    want = {'declare-const': 2, 'declare-fun': 3, 'define-fun': 3}
    for st in f.body[0].body if isinstance(f.body[0], ast.For) else []:
        pass
    stores = [s for s in ast.walk(f) if isinstance(s, ast.Assign)
              and unparse(s.targets[0]).startswith('__sort_lookup[')]
    if not stores:
        raise AnalysisError(
            'C16.R5: smtlib.collect_information does not store into '
            '__sort_lookup itself any more (the table construction moved): '
            'the rule cannot find the declaration forms')
    seen = {}
    for s in stores:
        facts = facts_at(f, s.value)
        cmd = None
        for (t, pol) in facts:
            if pol and t.startswith("name == '"):
                cmd = t.split("'")[1]
        key = unparse(s.targets[0])
        if cmd in want:
            ok = key == '__sort_lookup[cmd[1].data]' and unparse(
                s.value) == f'cmd[{want[cmd]}]'
            seen[cmd] = True
            chk.check('C16.R5', where, f'{cmd}: {key} = {unparse(s.value)}',
                      ok, f'{cmd} stores "{unparse(s.value)}" under {key}; '
                      f'the sort of a {cmd} is child {want[cmd]}, the symbol '
                      'child 1', loc=m.loc(s), nontrivial=True)
        else:
            vals = _binder_values(f, s)
            ok = key == '__sort_lookup[sym.data]' and (
                (vals <= {'get_sort(term)', 'None'}
                 and 'get_sort(term)' in vals) or vals == {'term'})
            chk.check('C16.R5', where, f'binder: {key} = {sorted(vals)}', ok,
                      'a let/quantifier binder stores an unexpected sort',
                      loc=m.loc(s), nontrivial=True)
    chk.check('C16.R5', where, 'all three declaration forms handled',
              set(seen) == set(want), f'handled: {sorted(seen)}',
              loc=m.loc(f))
    # binders: "sym, term = var" in order
    unp = [s for s in ast.walk(f) if isinstance(s, ast.Assign) and isinstance(
        s.targets[0], ast.Tuple) and unparse(s.value) == 'var']
    ok = len(unp) == 2 and all(unparse(s.targets[0]) == '(sym, term)'
                               for s in unp)
    chk.check('C16.R5', where, 'binder = (symbol, sort-or-term) in order', ok,
              'binder components are unpacked in the wrong order',
              loc=m.loc(f), nontrivial=True)
    # let: sort of the bound TERM via get_sort; quantifier: the sort itself
    for s in stores:
        facts = facts_at(f, s.value)
        v = unparse(s.value)
        if any(pol and "is_operator_app(node, 'let')" == t
               for (t, pol) in facts):
            vals = _binder_values(f, s)
            chk.check('C16.R5', where, f'let binder sort = {sorted(vals)}',
                      'get_sort(term)' in vals and vals <= {
                          'get_sort(term)', 'None'}, 'a let-bound symbol must get '
                      'the inferred sort of its term', loc=m.loc(s),
                      nontrivial=True)
        if any(pol and "forall" in t for (t, pol) in facts):
            chk.check('C16.R5', where, f'quantifier binder sort = {v}',
                      v == 'term', 'a quantified symbol must get the '
                      'declared sort', loc=m.loc(s), nontrivial=True)
    # a sort computed inside a try block and stored after it: a handler that
    # falls through must overwrite it, otherwise the value of the previous
    # binding / iteration is stored for this symbol
    ntry = 0
    for t_ in ast.walk(f):
        if not isinstance(t_, ast.Try):
            continue
        assigned = {x.targets[0].id for b_ in t_.body for x in ast.walk(b_)
                    if isinstance(x, ast.Assign) and len(x.targets) == 1
                    and isinstance(x.targets[0], ast.Name)}
        if not assigned:
            continue
        # statements after the try, up to the end of the enclosing loop body
        after = []
        cur = t_
        par = getattr(cur, '_parent', None)
        while par is not None and par is not f:
            for fld in ('body', 'orelse', 'finalbody'):
                blk = getattr(par, fld, None)
                if isinstance(blk, list) and cur in blk:
                    after += blk[blk.index(cur) + 1:]
            if isinstance(par, (ast.For, ast.While)):
                break
            cur = par
            par = getattr(par, '_parent', None)
        used = {x.id for a_ in after for x in ast.walk(a_)
                if isinstance(x, ast.Name) and isinstance(x.ctx, ast.Load)}
        for v_ in sorted(assigned & used):
            for h in t_.handlers:
                last = h.body[-1] if h.body else None
                if isinstance(last, (ast.Continue, ast.Break, ast.Return,
                                     ast.Raise)):
                    continue
                ntry += 1
                sets = any(isinstance(x, ast.Assign) and any(
                    isinstance(tg, ast.Name) and tg.id == v_
                    for tg in x.targets) for b_ in h.body
                    for x in ast.walk(b_))
                chk.check('C16.R5', where, f'handler resets "{v_}"', sets,
                          f'"{v_}" is computed inside a try block and used '
                          'after it, but the handler falls through without '
                          f'assigning "{v_}": when the computation raises, '
                          'the value of the previous binding (or of the '
                          'previous iteration) is stored - a definite wrong '
                          'sort instead of "unknown"', loc=m.loc(h),
                          nontrivial=True)
    chk.floor('C16.R5', 'fall-through handlers around sort inference', ntry,
              1)
    # datatypes: constructor -> its own datatype.  Every store
    # __datatypes_constructors[c[0]] = V with c ranging over a list L: (V, L)
    # is (B[1], B[2]) for a single declaration B, or (S[i], B[2][i]) with
    # S = [s[0] for s in B[1]] for the i-th of several.
    cons = [s for s in ast.walk(f) if isinstance(s, ast.Assign) and unparse(
        s.targets[0]).startswith('__datatypes_constructors[')]
    chk.floor('C16.R5', 'constructor table stores', len(cons), 2)

    def nearest_def(name, site):
        """value of the closest assignment to ``name`` that lexically
        precedes ``site`` in its own or an enclosing block"""
        cur = site
        while cur is not None and cur is not f:
            par = getattr(cur, '_parent', None)
            for fld in ('body', 'orelse', 'finalbody'):
                blk = getattr(par, fld, None)
                if isinstance(blk, list) and cur in blk:
                    for st in reversed(blk[:blk.index(cur)]):
                        if isinstance(st, ast.Assign) and any(
                                isinstance(t, ast.Name) and t.id == name
                                for t in st.targets):
                            return st.value
            cur = par
        return None

    def enum_binding(name, site):
        """``for i, name in enumerate(S)`` around site: S[i]"""
        cur = getattr(site, '_parent', None)
        while cur is not None and cur is not f:
            if isinstance(cur, ast.For) and isinstance(
                    cur.target, ast.Tuple) and len(
                        cur.target.elts) == 2 and all(
                            isinstance(t, ast.Name)
                            for t in cur.target.elts) and \
                    cur.target.elts[1].id == name and isinstance(
                        cur.iter, ast.Call) and call_name(
                            cur.iter) == 'enumerate' and len(
                                cur.iter.args) == 1:
                return ast.Subscript(value=cur.iter.args[0],
                                     slice=ast.Name(
                                         id=cur.target.elts[0].id,
                                         ctx=ast.Load()), ctx=ast.Load())
            cur = getattr(cur, '_parent', None)
        return None

    def resolve(e, site, depth=0):
        if isinstance(e, ast.Name) and depth < 4:
            d = nearest_def(e.id, site)
            if d is not None:
                return resolve(d, site, depth + 1)
            d = enum_binding(e.id, site)
            if d is not None:
                return d
        return e

    for s in cons:
        k = s.targets[0]
        lp = getattr(s, '_parent', None)
        while lp is not None and not isinstance(lp, ast.For):
            lp = getattr(lp, '_parent', None)
        ok = lp is not None and isinstance(lp.target, ast.Name) and unparse(
            k.slice) == f'{lp.target.id}[0]'
        why = 'the key is not the name (child 0) of the constructor the ' \
            'loop ranges over'
        if ok:
            V = resolve(s.value, s)
            L = resolve(lp.iter, lp)
            vt, lt = unparse(V), unparse(L)
            ok = False
            why = (f'constructors of "{lt}" are registered under "{vt}"')
            if isinstance(V, ast.Subscript) and isinstance(
                    L, ast.Subscript) and isinstance(V.slice, ast.Constant) \
                    and isinstance(L.slice, ast.Constant):
                # single declaration: (B[1], B[2])
                ok = unparse(V.value) == unparse(L.value) and \
                    V.slice.value == 1 and L.slice.value == 2
            elif isinstance(V, ast.Subscript) and isinstance(
                    L, ast.Subscript) and isinstance(L.value, ast.Subscript):
                # i-th of several: (S[i], B[2][i])
                S = resolve(V.value, s)
                same_i = unparse(V.slice) == unparse(L.slice)
                b2 = L.value
                okS = isinstance(S, ast.ListComp) and len(
                    S.generators) == 1 and isinstance(
                        S.elt, ast.Subscript) and is_const(S.elt.slice, 0) \
                    and unparse(S.elt.value) == unparse(
                        S.generators[0].target) and isinstance(
                            S.generators[0].iter, ast.Subscript) and \
                    is_const(S.generators[0].iter.slice, 1) and unparse(
                        S.generators[0].iter.value) == unparse(b2.value)
                ok = same_i and okS and is_const(b2.slice, 2)
        chk.check('C16.R5', where, f'{unparse(k)} = {unparse(s.value)}', ok,
                  'a constructor is not registered under the datatype whose '
                  f'constructor list it comes from ({why})', loc=m.loc(s),
                  nontrivial=True)
    # loop-variable clobbering in the inference/table code
    nloops = 0
    for fname in sorted(m.funcs):
        if '<locals>' in fname:
            continue
        g = m.func(fname)
        for lp in ast.walk(g):
            if not isinstance(lp, ast.For):
                continue
            nloops += 1
            outer = {x.id for x in ast.walk(lp.target)
                     if isinstance(x, ast.Name)}
            for inner in ast.walk(lp):
                if inner is lp:
                    continue
                tg = None
                if isinstance(inner, ast.For):
                    tg = inner.target
                elif isinstance(inner, ast.Assign) and not isinstance(
                        inner.targets[0], (ast.Subscript, ast.Attribute)):
                    tg = inner.targets[0]
                if tg is None:
                    continue
                names = {x.id for x in ast.walk(tg)
                         if isinstance(x, ast.Name) and isinstance(
                             x.ctx, ast.Store)}
                clash = outer & names
                if clash:
                    chk.check('C16.R5', f'smtlib.{fname}',
                              f'loop variable {sorted(clash)[0]} rebound '
                              f'inside its own loop', False,
                              f'the variable "{sorted(clash)[0]}" of the loop '
                              f'"for {unparse(lp.target)} in '
                              f'{unparse(lp.iter)[:40]}" is rebound by a '
                              'nested loop/assignment: later uses in the '
                              'same iteration (e.g. the datatype index of '
                              'the following constructors) see the wrong '
                              'value', loc=m.loc(inner), nontrivial=True)
    chk.floor('C16.R5', 'loops in the table code', nloops, 8)


# --------------------------------------------------------------------- R6
def rule_r6(chk, prog):
    chk.rule('C16.R6', 'every module-level table/cache of smtlib is reset '
             'by reset_information (with a global declaration) which '
             'collect_information calls first; no function rebinds such a '
             'name without declaring it global')
    m = prog.mod('smtlib')
    tables = {}
    for name, vals in m.globals.items():
        if name.startswith('__') and len(vals) >= 1:
            v = vals[0]
            if isinstance(v, (ast.Dict, ast.Set, ast.List)) or (
                    isinstance(v, ast.Call) and call_name(v) in ('set',
                                                                 'dict',
                                                                 'list')):
                tables[name] = v
    # a literal table that no function of the module ever writes is a
    # constant, not per-input state
    MUT = ('append', 'extend', 'add', 'update', 'clear', 'pop', 'remove',
           'discard', 'insert', 'setdefault', 'popitem', 'sort')

    def import_time_only(q_):
        """the function is called at module level only (a registration
        helper that fills a table while the module is imported)"""
        short = q_.split('.')[-1]
        for om in prog.pkg_modules():
            for g_ in om.funcs.values():
                for c_ in ast.walk(g_):
                    if isinstance(c_, ast.Call) and (call_name(c_) or ''
                                                     ).split('.')[-1] == short:
                        return False
        return any(isinstance(c_, ast.Call) and (call_name(c_) or '').split(
            '.')[-1] == short for st_ in m.tree.body
            if not isinstance(st_, (ast.FunctionDef, ast.ClassDef))
            for c_ in ast.walk(st_))

    def written(name):
        for q_, f_ in m.funcs.items():
            if import_time_only(q_):
                continue
            for x in ast.walk(f_):
                if isinstance(x, (ast.Assign, ast.AugAssign, ast.Delete)):
                    tg = x.targets if isinstance(
                        x, (ast.Assign, ast.Delete)) else [x.target]
                    for t in tg:
                        b = t
                        while isinstance(b, ast.Subscript):
                            b = b.value
                        if isinstance(b, ast.Name) and b.id == name:
                            return True
                if isinstance(x, ast.Call) and isinstance(
                        x.func, ast.Attribute) and x.func.attr in MUT:
                    b = x.func.value
                    while isinstance(b, ast.Subscript):
                        b = b.value
                    if isinstance(b, ast.Name) and b.id == name:
                        return True
        return False

    for name in list(tables):
        v = tables[name]
        nonempty = (isinstance(v, ast.Dict) and v.keys) or (
            isinstance(v, (ast.Set, ast.List)) and v.elts)
        filled_at_import = any(
            import_time_only(q_) and any(
                isinstance(x, ast.Name) and x.id == name
                for x in ast.walk(f_)) for q_, f_ in m.funcs.items())
        if (nonempty or filled_at_import) and not written(name):
            chk.info('C16.R6', f'{name} is a constant table (never written)')
            del tables[name]
    chk.floor('C16.R6', 'module-level tables', len(tables), 9)
    r = m.func('reset_information')
    gl = global_decls(r)
    assigned = {unparse(s.targets[0]) for s in walk_no_nested(r)
                if isinstance(s, ast.Assign)}
    for name in sorted(tables):
        ok = name in gl and name in assigned
        chk.check('C16.R6', 'smtlib.reset_information', f'reset of {name}',
                  ok, f'the table {name} is not reset (assignment plus '
                  '"global" declaration) by reset_information: entries '
                  'computed for an earlier input survive - a structurally '
                  'identical term of a later input gets a stale sort/width',
                  loc=m.loc(r), nontrivial=True)
    ci = m.func('collect_information')
    first = [s for s in ci.body if not isinstance(s, (ast.Global, ast.Expr))
             or (isinstance(s, ast.Expr) and isinstance(s.value, ast.Call))]
    ok = bool(first) and isinstance(first[0], ast.Expr) and call_name(
        first[0].value) == 'reset_information'
    chk.check('C16.R6', 'smtlib.collect_information',
              'reset_information() first', ok,
              'collect_information does not start by resetting the tables',
              loc=m.loc(ci), nontrivial=True)
    for q, f in m.funcs.items():
        gl = global_decls(f)
        for s in walk_no_nested(f):
            if isinstance(s, (ast.Assign, ast.AugAssign)):
                ts = s.targets if isinstance(s, ast.Assign) else [s.target]
                for t in ts:
                    if isinstance(t, ast.Name) and t.id in tables and \
                            t.id not in gl:
                        chk.check('C16.R6', f'smtlib.{q}', s, False,
                                  f'{t.id} is assigned without a "global" '
                                  'declaration: the statement creates a '
                                  'local and leaves the module table '
                                  'untouched', loc=m.loc(s), nontrivial=True)
    # caches are keyed consistently: get_sort stores what it looks up
    gs = m.func('get_sort')
    rets = [r.value for r in walk_no_nested(gs) if isinstance(r, ast.Return)]
    stores = [st for st in walk_no_nested(gs) if isinstance(st, ast.Assign)
              and isinstance(st.targets[0], ast.Subscript)
              and unparse(st.targets[0].value) == '__get_sort_cache']
    comp = [st for st in walk_no_nested(gs) if isinstance(st, ast.Assign)
            and isinstance(st.value, ast.Call)
            and call_name(st.value) == '_get_sort_aux'
            and unparse(st.value.args[0]) == params_of(gs)[0]]
    ok = len(comp) == 1 and len(stores) >= 1 and all(
        unparse(st.value) == unparse(comp[0].targets[0]) for st in stores) \
        and any(unparse(r) == unparse(comp[0].targets[0]) for r in rets)
    chk.check('C16.R6', 'smtlib.get_sort', 'cache stores the computed sort',
              ok, 'get_sort caches something other than its result',
              loc=m.loc(gs), nontrivial=True)


# --------------------------------------------------------------------- R7
def rule_r7(chk, prog):
    chk.rule('C16.R7', 'consumers use the sort of the node at hand: mutators '
             'keep no node-dependent state between filter and mutations; '
             'the fresh variable is declared with get_sort(node)')
    n = 0
    for m in prog.pkg_modules():
        if not m.name.startswith('mutators_'):
            continue
        for q, f in m.funcs.items():
            if '.' not in q or q.split('.')[-1] not in (
                    'filter', 'mutations', 'global_mutations'):
                continue
            ps = params_of(f)
            nodep = ps[1] if len(ps) > 1 else None
            # names derived from the node parameter
            derived = {nodep}
            changed = True
            while changed:
                changed = False
                for s in walk_no_nested(f):
                    if isinstance(s, ast.Assign) and isinstance(
                            s.targets[0], ast.Name):
                        if any(isinstance(x, ast.Name) and x.id in derived
                               for x in ast.walk(s.value)) and \
                                s.targets[0].id not in derived:
                            derived.add(s.targets[0].id)
                            changed = True
            for s in walk_no_nested(f):
                if isinstance(s, (ast.Assign, ast.AugAssign)):
                    ts = s.targets if isinstance(s, ast.Assign) else [
                        s.target]
                    for t in ts:
                        if isinstance(t, ast.Attribute) and isinstance(
                                t.value, ast.Name) and t.value.id == 'self':
                            n += 1
                            dep = any(isinstance(x, ast.Name)
                                      and x.id in derived
                                      for x in ast.walk(s.value))
                            chk.check('C16.R7', f'{m.name}.{q}', s, not dep,
                                      f'self.{t.attr} stores a value '
                                      'computed from the node: with ddmin '
                                      'all filters run before the first '
                                      'mutations call, so mutations sees the '
                                      'state of the LAST filtered node (e.g. '
                                      'a fresh variable declared with the '
                                      'sort of another term)', loc=m.loc(s),
                                      nontrivial=True)
    ms = prog.mod('mutators_smtlib')
    g = ms.func('IntroduceFreshVariable.global_mutations')
    decl = [c for c in calls_in(g) if call_name(c) == 'Node' and c.args
            and is_const(c.args[0], 'declare-const')]
    ok = len(decl) == 1 and len(decl[0].args) == 3 and unparse(
        expand_locals(g, decl[0].args[2])) == f'get_sort({params_of(g)[1]})'
    chk.check('C16.R7', 'mutators_smtlib.IntroduceFreshVariable.'
              'global_mutations', 'declared sort = get_sort(node)', ok,
              'the fresh variable is not declared with the inferred sort of '
              'the node it replaces', loc=ms.loc(g), nontrivial=True)
    mc = prog.mod('mutators_core')
    for cls, meth in (('Constants', 'mutations'), ('ReplaceByVariable',
                                                  'mutations'),
                      ('ReplaceByChild', 'mutations')):
        f = mc.func(f'{cls}.{meth}')
        p = params_of(f)[1]
        ok = any(call_name(c) == 'get_sort' and unparse(c.args[0]) == p
                 for c in calls_in(f))
        chk.check('C16.R7', f'mutators_core.{cls}.{meth}',
                  f'uses get_sort({p})', ok,
                  'the replacement is not chosen by the sort of the node',
                  loc=mc.loc(f), nontrivial=True)
    rc = mc.func('ReplaceByChild.mutations')
    ok = 'get_sort(n) == sort' in unparse(rc)
    chk.check('C16.R7', 'mutators_core.ReplaceByChild.mutations',
              'child has the same sort', ok, 'children of a different sort '
              'are proposed', loc=mc.loc(rc), nontrivial=True)


# --------------------------------------------------------------------- R8
def rule_r8(chk, prog):
    chk.rule('C16.R8', 'the memo of get_sort is transparent: a cached '
             '"unknown" (None) is a hit like any other value, and every '
             'computed result - known or unknown - is stored under every key '
             'the function probes')
    from ..cfg import enumerate_paths
    from ..astutil import module_sentinels, resolve_near

    def key_of(e, site):
        # "key = node.id; ... cache[key]": the key is node.id
        st = site
        while st is not None and not isinstance(st, ast.stmt):
            st = getattr(st, '_parent', None)
        return unparse(resolve_near(f, e, st if st is not None else site))
    m = prog.mod('smtlib')
    f = m.func('get_sort')
    where = 'smtlib.get_sort'
    ps = params_of(f)
    gl = global_decls(f)
    # the memo: a module-level dict this function stores into
    caches = set()
    for st in walk_no_nested(f):
        if isinstance(st, ast.Assign):
            for t in st.targets:
                if isinstance(t, ast.Subscript) and isinstance(
                        t.value, ast.Name) and t.value.id in m.globals:
                    caches.add(t.value.id)
    if len(caches) != 1:
        raise AnalysisError(
            f'C16.R8: get_sort stores into {sorted(caches)}; exactly one '
            'module-level memo expected')
    cache = caches.pop()
    sents = module_sentinels(m)
    compute = [c for c in calls_in(f)
               if isinstance(c.func, ast.Name) and c.func.id in m.funcs
               and c.args and isinstance(c.args[0], ast.Name)
               and c.args[0].id == ps[0]]
    if len(compute) != 1:
        raise AnalysisError('C16.R8: the call that computes the sort is not '
                            'unique in get_sort')
    comp = compute[0]
    # ---- probes
    probed = set()
    nprobe = 0
    for x in walk_no_nested(f):
        if isinstance(x, ast.Compare) and len(x.ops) == 1 and isinstance(
                x.ops[0], (ast.In, ast.NotIn)) and isinstance(
                    x.comparators[0], ast.Name) and \
                x.comparators[0].id == cache:
            probed.add(key_of(x.left, x))
            nprobe += 1
        if isinstance(x, ast.Call) and isinstance(
                x.func, ast.Attribute) and isinstance(
                    x.func.value, ast.Name) and x.func.value.id == cache:
            if x.func.attr == 'get' and x.args:
                probed.add(key_of(x.args[0], x))
                nprobe += 1
                dflt = x.args[1] if len(x.args) > 1 else kw(x, 'default')
                ok = isinstance(dflt, ast.Name) and dflt.id in sents
                chk.check('C16.R8', where, x, ok,
                          f'the memo is probed with {unparse(x)}: a cached '
                          '"unknown" (None) cannot be told from a miss, so '
                          'terms of unknown sort are inferred again on every '
                          'call (exponential in the nesting depth, since '
                          'the inference asks for the same operand twice) '
                          'and the structural entry that marks index '
                          'numerals as sort-less is ignored',
                          loc=m.loc(x), nontrivial=True)
            elif x.func.attr in ('setdefault', 'pop', 'popitem', 'clear',
                                 'update'):
                raise AnalysisError(
                    f'C16.R8: {m.loc(x)}: memo used through '
                    f'.{x.func.attr}(), not modelled')
    # reads cache[K] must be dominated by "K in cache" (or sit in a try
    # with a KeyError handler)
    for x in walk_no_nested(f):
        if isinstance(x, ast.Subscript) and isinstance(
                x.ctx, ast.Load) and isinstance(
                    x.value, ast.Name) and x.value.id == cache:
            key = unparse(x.slice)
            probed.add(key_of(x.slice, x))
            facts = facts_at(f, x)
            ok = (f'{key} in {cache}', True) in facts
            if not ok:
                p_ = getattr(x, '_parent', None)
                while p_ is not None and p_ is not f:
                    if isinstance(p_, ast.Try) and any(
                            h.type is not None and 'KeyError' in unparse(
                                h.type) for h in p_.handlers):
                        ok = True
                    p_ = getattr(p_, '_parent', None)
                if ok:
                    nprobe += 1  # the read under "except KeyError" probes
            chk.check('C16.R8', where, x, ok,
                      f'{unparse(x)} is read without a membership test of '
                      'that key', loc=m.loc(x), nontrivial=True)
    chk.floor('C16.R8', 'probes of the sort memo', nprobe, 2)
    # ---- stores on every path through the computation
    cfg = cfg_of(f)
    cn = expr_owner_node(cfg, comp)
    resvar = None
    if cn is not None and isinstance(cn.ast, ast.Assign) and isinstance(
            cn.ast.targets[0], ast.Name) and cn.ast.value is comp:
        resvar = cn.ast.targets[0].id
    if resvar is None:
        raise AnalysisError('C16.R8: the computed sort is not bound to a '
                            'local ("sort = _get_sort_aux(node)")')
    paths = enumerate_paths(cfg, cn, lambda n: False)
    npath = 0
    for p in paths:
        if p.end is not cfg.exit:
            continue
        npath += 1
        stored = set()
        for n in p.nodes:
            a = n.ast
            if n.kind == 'stmt' and isinstance(a, ast.Assign):
                for t in a.targets:
                    if isinstance(t, ast.Subscript) and isinstance(
                            t.value, ast.Name) and t.value.id == cache and \
                            isinstance(a.value, ast.Name) and \
                            a.value.id == resvar:
                        stored.add(key_of(t.slice, a))
        missing = sorted(probed - stored)
        from ..pathutil import describe_path
        chk.check('C16.R8', where, f'{describe_path(p)}: result stored '
                  f'under {sorted(probed)}', not missing,
                  f'on this path the computed sort is returned without '
                  f'being stored under {missing}: an "unknown" result is '
                  'computed again on every call, and the structural entry '
                  '"unknown" that keeps a copy of a marked index numeral '
                  'from being inferred as Int is never created',
                  loc=m.loc(comp), nontrivial=True)
        last = p.nodes[-2].ast if len(p.nodes) > 1 else None
        if isinstance(last, ast.Return):
            chk.check('C16.R8', where, last, isinstance(
                last.value, ast.Name) and last.value.id == resvar,
                      'the value returned after the computation is not the '
                      'computed sort', loc=m.loc(last), nontrivial=True)
    chk.floor('C16.R8', 'paths from the computation to the return', npath,
              1)


# --------------------------------------------------------------------- R9
def rule_r9(chk, prog):
    chk.rule('C16.R9', 'ddmin: after every adoption the symbol/sort tables '
             'are rebuilt from the adopted input before the next task is '
             'generated from it (filters and mutators consult the tables)')
    m = prog.mod('strategy_ddmin')
    n = 0
    for q in ('_check_seq', '_check_par'):
        f = m.func(q)
        where = f'strategy_ddmin.{q}'
        cfg = cfg_of(f)
        gen = params_of(f)[0]
        ups = [c for c in calls_in(f)
               if isinstance(c.func, ast.Attribute)
               and c.func.attr == 'update'
               and unparse(c.func.value) == gen]
        if not ups:
            raise AnalysisError(f'C16.R9: {where}: no {gen}.update(...)')

        def is_collect(node):
            a = getattr(node, 'ast', None)
            if a is None or node.kind not in ('stmt', 'test'):
                return False
            root = a.test if node.kind == 'test' and hasattr(
                a, 'test') else a
            for c in ast.walk(root) if node.kind == 'stmt' and not isinstance(
                    a, (ast.For, ast.While, ast.If, ast.With, ast.Try)) \
                    else []:
                if isinstance(c, ast.Call):
                    nm = call_name(c) or ''
                    if nm.endswith('collect_information'):
                        return True
                    # a helper of the module that does it first thing
                    if isinstance(c.func, ast.Name) and \
                            c.func.id in m.funcs and any(
                                (call_name(c2) or '').endswith(
                                    'collect_information')
                                for c2 in calls_in(m.funcs[c.func.id])):
                        return True
            return False

        # where the next task is drawn from the updated generator
        resume = []
        starts = [c for c in calls_in(f)
                  if isinstance(c.func, ast.Attribute)
                  and c.func.attr in ('start', 'reset')
                  and unparse(c.func.value) == gen]
        if starts:
            resume = [expr_owner_node(cfg, c) for c in starts]
        else:
            for l in walk_no_nested(f):
                if isinstance(l, ast.For) and any(
                        isinstance(x, ast.Name) and x.id == gen
                        for x in ast.walk(l.iter)):
                    resume.append(cfg.node_of[id(l)])
        if not resume:
            raise AnalysisError(f'C16.R9: {where}: cannot tell where the '
                                'next task is generated')
        for u in ups:
            n += 1
            un = expr_owner_node(cfg, u)
            seen, work, hit = set(), [un], None
            while work and hit is None:
                x = work.pop()
                for e in x.succ:
                    if e.kind == 'exc':
                        continue
                    d = e.dst
                    if d in seen:
                        continue
                    seen.add(d)
                    if is_collect(d):
                        continue
                    if d in resume:
                        hit = d
                        break
                    work.append(d)
            chk.check('C16.R9', where, u, hit is None,
                      'after this adoption the next task can be generated '
                      f'(line {getattr(hit.ast, "lineno", "?") if hit else ""}'
                      ') without smtlib.collect_information having been '
                      'called on the adopted input on the way: the sort '
                      'table, the declared symbols and the marked index '
                      'numerals still describe the previous input - '
                      'get_sort answers for nodes that have changed, '
                      'freshness tests miss symbols just introduced',
                      loc=m.loc(u), nontrivial=True)
    chk.floor('C16.R9', 'adoptions in the ddmin drain loops', n, 2)


def rule_r14(chk, prog):
    chk.rule('C16.R14', 'hierarchical: the symbol / sort tables are rebuilt '
             'from the current input at the start of every round, on every '
             'path - no condition ("only if a declaration changed") stands '
             'between the top of the round loop and the Producer')
    from ..mustpass import avoiding_paths
    m = prog.mod('strategy_hierarchical')
    f = m.func('reduce')
    cfg = cfg_of(f)
    prods = [c for c in ast.walk(f) if isinstance(c, ast.Call)
             and (call_name(c) or '').split('.')[-1] == 'Producer']
    if not prods:
        raise AnalysisError('C16.R14: no Producer(..) construction in '
                            'strategy_hierarchical.reduce')
    n = 0
    for c in prods:
        st = c
        while st is not None and id(st) not in cfg.node_of:
            st = getattr(st, '_parent', None)
        lp = getattr(st, '_parent', None)
        while lp is not None and not isinstance(lp, (ast.While, ast.For)):
            lp = getattr(lp, '_parent', None)
        if st is None or lp is None:
            raise AnalysisError('C16.R14: the Producer is not built inside '
                                'a loop')
        n += 1
        target = cfg.node_of[id(st)]
        head = cfg.node_of[id(lp)]

        def collects(nd):
            a = nd.ast
            if nd.kind != 'stmt' or a is None:
                return False
            return any(isinstance(x, ast.Call) and (call_name(x) or ''
                                                    ).split('.')[-1] ==
                       'collect_information' for x in ast.walk(a))

        first = [e for e in head.succ if e.kind in ('true', 'iter')]
        hit = avoiding_paths(cfg, head, {target}, collects,
                             first_edges=first)
        chk.check('C16.R14', 'strategy_hierarchical.reduce',
                  'collect_information on every path to the Producer',
                  hit is None,
                  'a round can reach "Producer(..)" without '
                  'collect_information(exprs) having run in that round: '
                  'the tables (sorts of symbols, index numerals, datatype '
                  'constructors) describe an earlier input - numerals the '
                  'last simplification introduced are typed Int and '
                  '"simplified", variables that are gone are proposed',
                  loc=m.loc(c), nontrivial=True)
    chk.floor('C16.R14', 'Producer constructions', n, 1)


def rule_r15(chk, prog):
    chk.rule('C16.R15', 'a literal prefix is removed by slicing, not by '
             'str.strip / lstrip / rstrip with a character set: the set '
             'also eats payload characters (lstrip("#bx") turns #xbeef into '
             '"eef")')
    n = 0
    for m in prog.pkg_modules():
        if not (m.name == 'smtlib' or m.name.startswith('mutators')):
            continue
        for c in ast.walk(m.tree):
            if isinstance(c, ast.Call) and isinstance(
                    c.func, ast.Attribute) and c.func.attr in (
                        'strip', 'lstrip', 'rstrip') and c.args and \
                    isinstance(c.args[0], ast.Constant) and isinstance(
                        c.args[0].value, str):
                n += 1
                cs = c.args[0].value
                bad = len(cs) >= 2 and any(ch.isalnum() for ch in cs)
                chk.check('C16.R15', m.name, c, not bad,
                          f'"{unparse(c)[:50]}" strips every leading / '
                          f'trailing character out of {cs!r}, not the '
                          'prefix: digits of the literal that happen to be '
                          'in the set are lost, value and width of the '
                          'constant are wrong', loc=m.loc(c),
                          nontrivial=True)
    chk.instance('C16.R15', 'smtlib, mutators', f'{n} strip calls with a '
                 'character set examined', True, 'zero-count rule (witness: '
                 'C16_35)')


def run(tier):
    prog = Program()
    chk = Check(
        PROP, 'other', tier,
        clauses_decided=[
            'every cell of the operator tables (result sort, sort-carrying '
            'argument, width polynomial) agrees with the SMT-LIB signatures',
            'the unknown sentinel never flows into a result',
            'default constants have the requested sort; FP tables agree',
            'table construction positions; tables reset between inputs; '
            'consumers use the sort of their own node',
        ],
        clauses_not_decided=[
            'inference on actual terms (needs a typed term generator)',
            'scoping: let/quantifier names are global in the table (the '
            'property assumes each symbol bound once)',
            'numerals in Real-only logics',
        ])
    chk.guard(rule_r1_r2, chk, prog)
    chk.guard(rule_width, chk, prog)
    chk.guard(rule_r3, chk, prog)
    chk.guard(rule_r4, chk, prog)
    chk.guard(rule_r5, chk, prog)
    chk.guard(rule_r6, chk, prog)
    chk.guard(rule_r7, chk, prog)
    chk.guard(rule_r8, chk, prog)
    chk.guard(rule_r9, chk, prog)
    chk.extra['exhaustive'] = True
    chk.guard(rule_r11, chk, prog)
    chk.guard(rule_r12, chk, prog)
    from .. import memo

    def _memo_rule(chk, prog):
        chk.rule('C16.R10', 'memoised functions of the sort inference: the cached value depends only on the cache key')
        memo.report(chk, prog, 'C16.R10', 'memoised functions of the sort inference',
                    lambda m, q: m.name == 'smtlib' or m.name.startswith('mutators'),
                    'the lookup tables are rebuilt for every input; a value cached for an earlier input is served for the current one, so a proposal is made for the wrong sort')

    chk.guard(_memo_rule, chk, prog)
    from .. import mutstate
    chk.guard(mutstate.report, chk, prog, 'C16.R13',
              'mutators keep no state from one call to the next: their '
              'protocol methods store nothing on the object, the class or '
              'module-level containers except option values and constants',
              'a sort or width remembered for another node is used for this one')
    chk.guard(rule_r14, chk, prog)
    chk.guard(rule_r15, chk, prog)
    from .. import defaultconsts
    chk.guard(defaultconsts.report_sorts, chk, prog, 'C16.R16',
              'the sort (and bit-width) ddSMT infers for its own default '
              'constants of sort S is S (get_default_constants, get_sort and '
              'get_bv_width folded on literal sorts)',
              'a default constant "of the same sort" is proposed for a term of another sort, or is itself re-typed and replaced again')
    from .. import probes
    chk.guard(probes.report_inference, chk, prog, 'C16.R17',
              'get_sort / get_bv_width / get_bv_constant_value, folded on a '
              'table of closed literal terms, give the sort, width and value '
              'SMT-LIB fixes for them (or "unknown"), and only "unknown" '
              'when an operand has no known width',
              'a sort or width that is neither unknown nor right: replacements "of the same sort" are ill-sorted')
    from .. import extractbounds
    chk.guard(extractbounds.report, chk, prog, 'C16.R18',
              'an extract operator a mutator puts onto an operand T (re-used '
              'from the matched application or newly built) has indices '
              'L <= H < width(T): the guard facts of the construction site '
              'entail both bounds (difference-bound argument over the '
              'linear guards; widths from get_bv_width, indices from '
              'get_indices)',
              'the replacement is ill-sorted, or the width inferred for it '
              'differs from the width of the term it replaces')
    extra = None
    if tier == 'thorough':
        from .. import selftest
        extra = selftest.run_for(PROP)
    return chk.finish(extra)
