"""C11 - applying a simplification changes exactly the designated subtrees.
Partial, level 'other': structural obligations of nodes.substitute,
mutator_utils.apply_simp and smtlib.introduce_variables."""
import ast

from ..astutil import (call_name, calls_in, walk_no_nested, params_of, kw,
                       is_const)
from ..cfg import (cfg_of, loop_body_paths, expr_owner_node, root_name,
                   MUTATING_METHODS, enumerate_paths)
from ..loader import Program, AnalysisError, unparse
from ..pathutil import (path_method_calls, facts_before, describe_path,
                        node_calls)
from ..report import Check

PROP = 'C11'


def _work_loop(f, name):
    loops = [n for n in walk_no_nested(f) if isinstance(n, ast.While)]
    if len(loops) != 1:
        raise AnalysisError(f'{name}: expected exactly one work loop')
    return loops[0]


def substitute_taint(chk, prog, rid):
    """Rule shared by C11.R1 and C03.R1: a value taken out of the
    replacement map never re-enters the work list."""
    chk.rule(rid, 'nodes.substitute: a value read from the replacement map '
             'is never pushed (itself or its children) onto the work list')
    m = prog.mod('nodes')
    f = m.func('substitute')
    where = 'nodes.substitute'
    ps = params_of(f)
    base, repl = ps[0], ps[1]
    loop = _work_loop(f, where)
    work = unparse(loop.test)
    cfg = cfg_of(f)
    paths = loop_body_paths(cfg, loop)
    ntaint = 0
    for p in paths:
        tainted = set()
        for i, n in enumerate(p.nodes[:-1]):
            a = n.ast
            if n.kind == 'stmt' and isinstance(a, ast.Assign) and isinstance(
                    a.targets[0], ast.Name):
                v = a.value
                reads_map = False
                for x in ast.walk(v):
                    if isinstance(x, ast.Subscript) and isinstance(
                            x.value, ast.Name) and x.value.id == repl:
                        reads_map = True
                    if isinstance(x, ast.Call) and isinstance(
                            x.func, ast.Attribute) and isinstance(
                                x.func.value, ast.Name) and \
                            x.func.value.id == repl and x.func.attr in (
                                'pop', 'get'):
                        reads_map = True
                    if isinstance(x, ast.Name) and x.id in tainted:
                        reads_map = True
                if reads_map:
                    tainted.add(a.targets[0].id)
                    ntaint += 1
                elif a.targets[0].id in tainted:
                    tainted.discard(a.targets[0].id)
            # sinks
            for c in node_calls(n):
                if isinstance(c.func, ast.Attribute) and unparse(
                        c.func.value) == work and c.func.attr in (
                            'append', 'extend', 'insert'):
                    used = {x.id for a_ in c.args for x in ast.walk(a_)
                            if isinstance(x, ast.Name)}
                    bad = used & tainted
                    if bad:
                        chk.check(
                            rid, where, c, False,
                            f'the replacement held in "{sorted(bad)[0]}" is '
                            'pushed back onto the work list: it is scanned '
                            'again with the same keys, so a replacement that '
                            'contains its own key (formal a, actual (+ a 1)) '
                            'is rewritten again and again - substitution '
                            'does not terminate / captures names',
                            loc=m.loc(c), nontrivial=True)
    chk.floor(rid, 'reads of the replacement map in the loop', ntaint, 2)
    pushes = [c for c in calls_in(loop) if isinstance(c.func, ast.Attribute)
              and unparse(c.func.value) == work
              and c.func.attr in ('append', 'extend', 'insert')]
    chk.floor(rid, 'pushes onto the work list', len(pushes), 2)
    chk.instance(rid, where, f'{len(paths)} iteration paths examined', True,
                 'path-sensitive taint from map reads to work-list pushes',
                 nontrivial=True)
    return paths


def rule_r2(chk, prog):
    chk.rule('C11.R2', 'the base is not modified: no in-place mutation of '
             'the input parameters in substitute/apply_simp/'
             'introduce_variables/reduplicate')
    targets = [('nodes', 'substitute', [0]), ('nodes', 'reduplicate', [0]),
               ('mutator_utils', 'apply_simp', [0]),
               ('smtlib', 'introduce_variables', [0, 1])]
    for modname, fname, idxs in targets:
        m = prog.mod(modname)
        f = m.func(fname)
        ps = params_of(f)
        prot = {ps[i] for i in idxs}
        # direct aliases
        for st in walk_no_nested(f):
            if isinstance(st, ast.Assign) and isinstance(
                    st.value, ast.Name) and st.value.id in prot:
                for t in st.targets:
                    if isinstance(t, ast.Name):
                        prot.add(t.id)
            if isinstance(st, ast.Assign) and isinstance(
                    st.value, ast.Attribute) and st.value.attr == 'data' \
                    and root_name(st.value) in prot:
                for t in st.targets:
                    if isinstance(t, ast.Name):
                        prot.add(t.id)
        bad = []
        for st in walk_no_nested(f):
            if isinstance(st, (ast.Assign, ast.AugAssign, ast.Delete)):
                ts = st.targets if not isinstance(
                    st, ast.AugAssign) else [st.target]
                for t in ts:
                    if isinstance(t, (ast.Subscript, ast.Attribute)) and \
                            root_name(t) in prot:
                        bad.append(st)
                    if isinstance(st, ast.AugAssign) and isinstance(
                            t, ast.Name) and t.id in prot:
                        bad.append(st)
            if isinstance(st, ast.Call) and isinstance(
                    st.func, ast.Attribute) and \
                    st.func.attr in MUTATING_METHODS and root_name(
                        st.func.value) in prot:
                bad.append(st)
        for b in bad:
            chk.check('C11.R2', f'{modname}.{fname}', b, False,
                      'in-place modification of the input: other pending '
                      'simplifications computed for the same input are '
                      'applied to a changed base', loc=m.loc(b),
                      nontrivial=True)
        chk.instance('C11.R2', f'{modname}.{fname}',
                     f'parameters {sorted(prot)} never mutated', not bad,
                     'no store/augmented assignment/mutating method call '
                     'rooted at the parameter or a direct alias',
                     nontrivial=True)


def rule_r34(chk, prog, paths):
    chk.rule('C11.R3', 'untouched subtrees keep identity: a rebuilt node is '
             'kept only if it differs from the original; unchanged input is '
             'returned as is')
    chk.rule('C11.R4', 'every popped element is looked up by identity and by '
             'structure before it is emitted; exactly one emission per '
             'element; a None replacement (and only that) drops it')
    m = prog.mod('nodes')
    f = m.func('substitute')
    where = 'nodes.substitute'
    ps = params_of(f)
    base, repl = ps[0], ps[1]
    loop = _work_loop(f, where)
    work = unparse(loop.test)
    cfg = cfg_of(f)
    head = cfg.node_of[id(loop)]
    # popped variable
    popv = None
    for st in ast.walk(loop):
        if isinstance(st, ast.Assign) and isinstance(
                st.value, ast.Call) and isinstance(
                    st.value.func, ast.Attribute) and \
                st.value.func.attr == 'pop' and unparse(
                    st.value.func.value) == work:
            t = st.targets[0]
            popv = t.elts[0].id if isinstance(t, ast.Tuple) else t.id
    if popv is None:
        raise AnalysisError('substitute: popped variable not found')
    # names of the frame stack ([[]]), the rebuilt node and the changed flag
    frames = None
    rebuilt = None
    for st in walk_no_nested(f):
        if isinstance(st, ast.Assign) and isinstance(
                st.targets[0], ast.Name):
            v = st.value
            if isinstance(v, ast.List) and len(v.elts) == 1 and isinstance(
                    v.elts[0], ast.List) and not v.elts[0].elts:
                frames = st.targets[0].id
            if isinstance(v, ast.Call) and call_name(v) == 'Node' and any(
                    isinstance(a, ast.Starred) for a in v.args):
                rebuilt = st.targets[0].id
    flag = None
    for st in walk_no_nested(f):
        if isinstance(st, ast.If) and isinstance(
                st.test, ast.UnaryOp) and isinstance(
                    st.test.op, ast.Not) and isinstance(
                        st.test.operand, ast.Name) and len(
                            st.body) == 1 and isinstance(
                                st.body[0], ast.Return) and unparse(
                                    st.body[0].value) == base:
            flag = st.test.operand.id
    if frames is None or flag is None:
        raise AnalysisError('substitute: frame stack ([[]]) or the '
                            '"if not <changed>: return <input>" exit not '
                            'found')
    rebuilt = rebuilt or 'node'
    n_it = 0
    for p in paths:
        if p.end is not head:
            if p.end in (cfg.exit, cfg.raise_exit) and not isinstance(
                    p.nodes[-2].ast, ast.Assert):
                chk.check('C11.R4', where, describe_path(p), False,
                          'the rewrite loop can be left before the work list '
                          'is empty', loc=m.loc(loop))
            continue
        n_it += 1
        desc = describe_path(p)
        emits = [(i, n, c) for (i, n, c) in path_method_calls(
            p, attr='append') if unparse(c.func.value) == f'{frames}[-1]']
        pushes = [(i, n, c) for (i, n, c) in path_method_calls(p)
                  if unparse(c.func.value) == work
                  and c.func.attr in ('append', 'extend')]
        first = min([i for (i, n, c) in emits + pushes], default=None)
        texts = [t for (t, pol) in p.facts]
        by_id = any(f'{popv}.id in {repl}' in t for t in texts)
        def mentions(t, what):
            try:
                e_ = ast.parse(t, mode='eval').body
            except SyntaxError:
                return False
            return any(isinstance(x, ast.Compare) and unparse(x) == what
                       for x in ast.walk(e_))

        # "A or <popv in repl>" holding means: A held (the identity hit) or
        # the structural lookup was made
        def lookup_made(t, pol, what):
            """Does fact (t, pol) guarantee that the membership test
            ``what`` was evaluated?  In a false conjunction only the
            operands before the first false one are evaluated: the test
            counts only when nothing but emptiness tests of the map
            precedes it (an empty map has no entry to find)."""
            try:
                e_ = ast.parse(t, mode='eval').body
            except SyntaxError:
                return False

            def made(e, pol):
                if isinstance(e, ast.UnaryOp) and isinstance(e.op, ast.Not):
                    return made(e.operand, not pol)
                if isinstance(e, ast.Compare) and unparse(e) == what:
                    return True
                if isinstance(e, ast.BoolOp):
                    all_eval = isinstance(e.op, ast.And) == pol
                    for k, v in enumerate(e.values):
                        sub = any(isinstance(x, ast.Compare)
                                  and unparse(x) == what
                                  for x in ast.walk(v))
                        if not sub:
                            continue
                        if isinstance(e.op, ast.Or) or all_eval:
                            return True
                        before = [unparse(b) for b in e.values[:k]]
                        return all(b in (repl, f'len({repl})',
                                         f'len({repl}) > 0',
                                         f'len({repl}) != 0',
                                         f'{repl} is not None')
                                   for b in before) and made(v, True)
                    return False
                return any(isinstance(x, ast.Compare) and unparse(x) == what
                           for x in ast.walk(e))
            return made(e_, pol)

        by_eq = any(lookup_made(t, pol, f'{popv} in {repl}')
                    for (t, pol) in p.facts)
        id_hit = any(t == f'{popv}.id in {repl}' and pol
                     for (t, pol) in p.facts)
        chk.check('C11.R4', where, f'{desc}: both lookups',
                  by_id and (by_eq or id_hit),
                  'an element is emitted or descended into without having '
                  f'been looked up under its identity ({by_id}) and under '
                  f'structural equality ({by_eq})', loc=m.loc(loop),
                  nontrivial=True)
        # the variable(s) holding the value taken out of the map on this path
        rvars = {popv}
        for n_ in p.nodes[:-1]:
            a_ = n_.ast
            if n_.kind == 'stmt' and isinstance(a_, ast.Assign) and \
                    isinstance(a_.targets[0], ast.Name):
                for x_ in ast.walk(a_.value):
                    if (isinstance(x_, ast.Subscript) and unparse(
                            x_.value) == repl) or (
                                isinstance(x_, ast.Call) and isinstance(
                                    x_.func, ast.Attribute) and unparse(
                                        x_.func.value) == repl
                                and x_.func.attr in ('pop', 'get')):
                        rvars.add(a_.targets[0].id)
        none_path = any((f'{v_} is None', True) in p.facts for v_ in rvars)
        if none_path:
            chk.check('C11.R4', where, f'{desc}: deletion',
                      not emits and not pushes,
                      'a None replacement must delete the element',
                      loc=m.loc(loop), nontrivial=True)
            continue
        if pushes:
            # descent: marker + all children reversed + a new frame
            ok = len(emits) == 0
            txt = ' ; '.join(unparse(c) for (i, n, c) in pushes)
            ok = ok and f'reversed({popv}.data)' in txt and any(
                unparse(c.func.value) == frames and c.func.attr == 'append'
                for (i, n, c) in path_method_calls(p))
            chk.check('C11.R4', where, f'{desc}: descent', ok,
                      'descent must push the node marker, all children in '
                      'reverse and open a new frame, and emit nothing yet',
                      loc=m.loc(loop), nontrivial=True)
            continue
        chk.check('C11.R4', where, f'{desc}: one emission', len(emits) == 1,
                  f'{len(emits)} emissions for one element (0 drops a node '
                  'that was not deleted, 2 duplicates it)', loc=m.loc(loop),
                  nontrivial=True)
        # R3: what is emitted on the rebuild arm
        for (i, n, c) in emits:
            a = c.args[0]
            if isinstance(a, ast.Name) and a.id == popv:
                rebound = any(
                    n_.kind == 'stmt' and isinstance(n_.ast, ast.Assign)
                    and any(isinstance(t_, ast.Name) and t_.id == popv
                            for t_ in n_.ast.targets)
                    and not (isinstance(n_.ast.value, ast.Call)
                             and unparse(n_.ast.value.func) == f'{work}.pop')
                    and not isinstance(n_.ast.targets[0], ast.Tuple)
                    for n_ in p.nodes[:i])
                if not rebound:
                    # the element itself, without looking inside: only when
                    # there is nothing inside (a leaf) or nothing left to
                    # replace (the map is empty)
                    okset = ((f'{popv}.is_leaf()', True), (repl, False),
                             (f'not {repl}', True),
                             (f'len({repl}) == 0', True),
                             (f'len({repl}) > 0', False),
                             (f'{popv}.data', False),
                             (f'isinstance({popv}.data, str)', True),
                             # the rebuilt node equals the original
                             (f'{rebuilt} == {popv}', True),
                             (f'{popv} == {rebuilt}', True),
                             (f'{rebuilt} != {popv}', False))

                    def justified(t, pol):
                        if (t, pol) in okset:
                            return True
                        try:
                            e_ = ast.parse(t, mode='eval').body
                        except SyntaxError:
                            return False
                        if pol and isinstance(e_, ast.BoolOp) and isinstance(
                                e_.op, ast.Or):
                            return all(justified(unparse(v_), True)
                                       for v_ in e_.values)
                        if not pol and isinstance(
                                e_, ast.BoolOp) and isinstance(
                                    e_.op, ast.And):
                            return all(justified(unparse(v_), False)
                                       for v_ in e_.values)
                        return False

                    just = any(justified(t, pol) for (t, pol) in p.facts)
                    chk.check('C11.R4', where, f'{desc}: element kept '
                              'without descent', just,
                              'an inner node is emitted as it is, without '
                              'descending into it, although the '
                              'replacement map is not known to be empty: '
                              'occurrences of the remaining keys below it '
                              'are not replaced', loc=m.loc(c),
                              nontrivial=True)
                continue
            if isinstance(a, ast.Name) and a.id in rvars:
                continue  # the value taken out of the map, inserted as given
            before = set(facts_before(p, i))
            # a freshly built node: must have been compared with the original
            ok = (f'{rebuilt} == {popv}', False) in before or (
                f'{popv} == {rebuilt}', False) in before
            if isinstance(a, ast.Name) or (isinstance(a, ast.Call)
                                           and call_name(a) == 'Node'):
                if id_hit or any(t == f'{popv} in {repl}' and pol
                                 for (t, pol) in p.facts):
                    continue  # the replacement itself, inserted as given
                chk.check('C11.R3', where, f'{desc}: emit {unparse(a)}', ok,
                          'a rebuilt node is emitted without having been '
                          'compared with the original: subtrees in which '
                          'nothing was replaced lose their identity, so '
                          'pending identity-keyed simplifications no longer '
                          'apply', loc=m.loc(c), nontrivial=True)
            else:
                chk.check('C11.R3', where, f'{desc}: emit {unparse(a)}',
                          False, 'unrecognised emission', loc=m.loc(c))
        # a replacement sets the changed flag
        took = any((f'{popv}.id in {repl}' in t or t == f'{popv} in {repl}')
                   and pol for (t, pol) in p.facts) or len(rvars) > 1
        if took:
            chk.check('C11.R3', where, f'{desc}: changed flag',
                      p.env.get(flag) is True,
                      'a replacement happened but the "changed" flag is not '
                      'set: the unchanged input would be returned',
                      loc=m.loc(loop), nontrivial=True)
    chk.floor('C11.R4', 'iteration paths of substitute', n_it, 5)
    # unchanged => the original argument object
    IN, _ = cfg.guard_facts()
    ok = False
    for n in cfg.nodes:
        if n.kind == 'stmt' and isinstance(n.ast, ast.Return) and isinstance(
                n.ast.value, ast.Name) and n.ast.value.id == base:
            facts = IN.get(n) or frozenset()
            if (flag, False) in facts:
                ok = True
    chk.check('C11.R3', where, 'unchanged input returned as is', ok,
              f'no "return {base}" dominated by "not changed": apply_simp '
              'relies on identity (mexprs is not exprs)', loc=m.loc(f),
              nontrivial=True)
    # rebuilt node from this frame's children only
    for c in calls_in(loop):
        if call_name(c) == 'Node':
            a = [unparse(x) for x in c.args]
            chk.check('C11.R3', where, c, a == ['*children'] and
                      not c.keywords, 'a rebuilt node must be '
                      'Node(*children) of its own frame', loc=m.loc(c),
                      nontrivial=True)


def rule_r5(chk, prog):
    chk.rule('C11.R5', 'declarations are inserted right after the leading '
             'set-info/set-logic prefix, exactly when the substitution '
             'changed something and declarations were requested')
    m = prog.mod('smtlib')
    f = m.func('introduce_variables')
    where = 'smtlib.introduce_variables'
    ps = params_of(f)
    cfg = cfg_of(f)
    loops = [n for n in walk_no_nested(f) if isinstance(n, (ast.While,
                                                            ast.For))]
    ok = len(loops) == 1
    chk.check('C11.R5', where, 'one prefix scan', ok,
              f'{len(loops)} loops; expected one scan of the prefix',
              loc=m.loc(f))
    if not ok:
        return
    loop = loops[0]
    head = cfg.node_of[id(loop)]
    paths = loop_body_paths(cfg, loop)
    from ..astutil import module_const, expand_locals
    from ..boolfn import eval_bool_expr
    idents = set()
    for c in ast.walk(loop):
        if isinstance(c, ast.Compare) and isinstance(
                c.ops[0], (ast.In, ast.NotIn)):
            try:
                v_ = module_const(m, c.comparators[0])
            except ValueError:
                v_ = None
            if isinstance(v_, (tuple, list, set, frozenset)):
                idents.update(x for x in v_ if isinstance(x, str))
    chk.check('C11.R5', where, f'prefix commands {sorted(idents)}',
              idents == {'set-info', 'set-logic'},
              f'the prefix is defined by {sorted(idents)}; documented: '
              'set-info and set-logic', loc=m.loc(loop), nontrivial=True)

    class _Other(Exception):
        pass

    def atom(e):
        # H: <x>.has_ident()   P: <x>.get_ident() in <prefix set>
        if isinstance(e, ast.Call) and isinstance(
                e.func, ast.Attribute) and e.func.attr == 'has_ident':
            return ('H', True)
        if isinstance(e, ast.Compare) and len(e.ops) == 1 and isinstance(
                e.ops[0], (ast.In, ast.NotIn)) and isinstance(
                    e.left, ast.Call) and isinstance(
                        e.left.func, ast.Attribute) and \
                e.left.func.attr == 'get_ident':
            return ('P', isinstance(e.ops[0], ast.In))
        raise _Other()

    def taken(p, val):
        """Is the path consistent with the valuation of (H, P)?  Facts about
        anything else (cursor < length, ...) do not restrict it."""
        from ..shape import parse_expr
        for (t, pol) in p.facts:
            e = parse_expr(t)
            if e is None:
                continue
            try:
                if bool(eval_bool_expr(e, atom, val)) != pol:
                    return False
            except _Other:
                continue
        return True

    # the cursor: a name incremented by one in the loop (While: also the
    # index of the scan; For: a counter)
    incs_all = [n for n in ast.walk(loop) if isinstance(n, ast.AugAssign)
                and isinstance(n.op, ast.Add) and is_const(n.value, 1)
                and isinstance(n.target, ast.Name)]
    cursor = incs_all[0].target.id if len(incs_all) == 1 else None
    if isinstance(loop, ast.For) and isinstance(
            loop.iter, ast.Call) and call_name(loop.iter) == 'enumerate':
        cursor = None  # judged through the returned slice below
    nval = 0
    for val, header in (({'H': True, 'P': True}, True),
                        ({'H': True, 'P': False}, False),
                        ({'H': False, 'P': False}, False),
                        ({'H': False, 'P': True}, False)):
        for p in paths:
            if not taken(p, val):
                continue
            nval += 1
            desc = describe_path(p)
            cont = p.end is head
            if header:
                incs = [n.ast for n in p.nodes[:-1] if n.kind == 'stmt'
                        and isinstance(n.ast, ast.AugAssign)
                        and cursor is not None
                        and unparse(n.ast.target) == cursor]
                adv = cursor is None or len(incs) == 1
                chk.check('C11.R5', where, f'{desc}: header element: scan '
                          'continues and advances', cont and adv,
                          'at a leading set-info/set-logic command the scan '
                          'stops (or does not advance by one): declarations '
                          'are not inserted after the whole prefix',
                          loc=m.loc(loop), nontrivial=True)
            else:
                chk.check('C11.R5', where, f'{desc}: other element '
                          f'(has_ident={val["H"]}): scan stops', not cont,
                          'the scan continues past an element that is '
                          'not a set-info/set-logic command: declarations '
                          'would be inserted after a later header-like '
                          'command instead of after the leading prefix',
                          loc=m.loc(loop), nontrivial=True)
    chk.floor('C11.R5', 'iteration paths x valuations of the prefix scan',
              nval, 3)
    rets = [s for s in walk_no_nested(f) if isinstance(s, ast.Return)]
    ok = len(rets) == 1
    if ok:
        v = expand_locals(f, rets[0].value)
        # exprs[:pos] + vars + exprs[pos:]
        txt = unparse(v).replace(' ', '')
        cur = None
        for nme in ast.walk(v):
            if isinstance(nme, ast.Slice) and nme.upper is not None:
                cur = unparse(nme.upper)
        ok = cur is not None and txt == (f'{ps[0]}[:{cur}]+{ps[1]}+'
                                         f'{ps[0]}[{cur}:]')
        if ok and cursor is not None:
            init = [st for st in walk_no_nested(f)
                    if isinstance(st, ast.Assign)
                    and unparse(st.targets[0]) == cursor]
            ok = cur == cursor and len(init) == 1 and is_const(
                init[0].value, 0)
    chk.check('C11.R5', where, 'result = prefix + declarations + rest', ok,
              'the result is not exprs[:k] + vars + exprs[k:] with k the '
              'number of leading header commands', loc=m.loc(f),
              nontrivial=True)
    # apply_simp
    um = prog.mod('mutator_utils')
    a = um.func('apply_simp')
    acfg = cfg_of(a)
    IN, _ = acfg.guard_facts()
    calls = [c for c in calls_in(a) if (call_name(c) or '').endswith(
        'introduce_variables')]
    subs = [c for c in calls_in(a) if (call_name(c) or '').endswith(
        'substitute')]
    ok = len(calls) == 1 and len(subs) == 1
    chk.check('C11.R5', 'mutator_utils.apply_simp', 'one substitute, one '
              'introduce_variables', ok, 'unexpected call structure',
              loc=um.loc(a))
    if ok:
        from ..cfg import facts_at as _facts_at
        from ..astutil import expand_locals as _xl
        facts = _facts_at(a, calls[0])
        aps = params_of(a)
        cond = any(t.endswith(f' is {aps[0]}') and not pol
                   for (t, pol) in facts) and any(
                       t.endswith('.fresh_vars') and pol
                       for (t, pol) in facts)
        chk.check('C11.R5', 'mutator_utils.apply_simp', calls[0], cond,
                  'declarations must be introduced exactly when the '
                  'substitution changed the input and the simplification '
                  'carries declarations', loc=um.loc(calls[0]),
                  nontrivial=True)
        s = subs[0]
        ok2 = len(s.args) == 2 and unparse(s.args[0]) == aps[0] and unparse(
            _xl(a, s.args[1])).endswith('.substs')
        chk.check('C11.R5', 'mutator_utils.apply_simp', s, ok2,
                  'substitute must be applied to the input with the '
                  'simplification\'s own map', loc=um.loc(s), nontrivial=True)
        iv = calls[0]
        ok3 = len(iv.args) == 2 and unparse(_xl(a, iv.args[1])).endswith(
            '.fresh_vars')
        chk.check('C11.R5', 'mutator_utils.apply_simp', iv, ok3,
                  'introduce_variables must receive the requested '
                  'declarations', loc=um.loc(iv), nontrivial=True)


def rule_r6(chk, prog):
    chk.rule('C11.R6', 'formal->actual substitution is simultaneous: one '
             'substitute call with a map over all formals; no iterated '
             'substitution over a loop-carried base')
    n = 0
    for m in prog.pkg_modules():
        if not (m.name == 'smtlib' or m.name.startswith('mutators')):
            continue
        for c in ast.walk(m.tree):
            if isinstance(c, ast.Call) and (call_name(c) or '').endswith(
                    'substitute') and c.args:
                n += 1
                fn = _fn(c)
                st = c
                while st is not None and not isinstance(st, ast.stmt):
                    st = getattr(st, '_parent', None)
                carried = False
                if isinstance(st, ast.Assign) and isinstance(
                        c.args[0], ast.Name) and any(
                            isinstance(t, ast.Name) and t.id == c.args[0].id
                            for t in st.targets):
                    p = getattr(st, '_parent', None)
                    while p is not None and not isinstance(
                            p, (ast.FunctionDef, ast.Lambda)):
                        if isinstance(p, (ast.For, ast.While)):
                            carried = True
                        p = getattr(p, '_parent', None)
                chk.check('C11.R6', f'{m.name}.{fn}', c, not carried,
                          'substitution is iterated over a loop-carried base '
                          '(one formal at a time): an actual argument '
                          'inserted for an earlier formal is rewritten again '
                          'when it mentions a later formal', loc=m.loc(c),
                          nontrivial=True)
    chk.floor('C11.R6', 'substitute call sites in smtlib/mutators', n, 2)
    # the define-fun instantiation closure
    sm = prog.mod('smtlib')
    ci = sm.func('collect_information')
    lams = [l for l in ast.walk(ci) if isinstance(l, ast.Lambda)]
    # ... or a nested function of a closure factory ("def instantiate(args):
    # return substitute(body, map)") anywhere in the module
    from ..astutil import expand_locals as _el

    class _Body:
        pass

    for q_, fn_ in sm.funcs.items():
        if '<locals>' not in q_:
            continue
        rets_ = [r for r in walk_no_nested(fn_) if isinstance(r, ast.Return)]
        if len(rets_) == 1 and isinstance(rets_[0].value, ast.Call) and (
                call_name(rets_[0].value) or '').endswith('substitute'):
            fb = _Body()
            fb.body = _el(fn_, rets_[0].value)
            lams.append(fb)
    found = False
    for l in lams:
        b = l.body
        if isinstance(b, ast.Call) and (call_name(b) or '').endswith(
                'substitute') and len(b.args) == 2:
            mp = b.args[1]
            found = True
            ok = isinstance(mp, ast.DictComp) and 'range(len(' in unparse(
                mp.generators[0].iter)
            chk.check('C11.R6', 'smtlib.collect_information', b, ok,
                      'the instantiation closure must substitute all '
                      'formals at once (a single map over range(len(args)))',
                      loc=sm.loc(b), nontrivial=True)
            if ok:
                k, v = unparse(mp.key), unparse(mp.value)
                iv = mp.generators[0].target.id
                ok2 = k == f'cmd[2][{iv}][0]' and v == f'args[{iv}]' and \
                    unparse(b.args[0]) == 'cmd[4]'
                chk.check('C11.R6', 'smtlib.collect_information',
                          f'{k}: {v}', ok2,
                          'i-th formal name must map to the i-th actual, '
                          'applied to the body cmd[4]', loc=sm.loc(b),
                          nontrivial=True)
    if not found:
        # instantiation moved into a helper: follow one level
        helper_ok = False
        for l in lams:
            b = l.body
            if isinstance(b, ast.Call) and isinstance(
                    b.func, ast.Name) and b.func.id in sm.funcs:
                h = sm.funcs[b.func.id]
                hs = [c for c in calls_in(h) if (call_name(c) or '').endswith(
                    'substitute')]
                if hs:
                    helper_ok = True  # judged by the loop-carried rule above
        if not helper_ok:
            raise AnalysisError(
                'smtlib.collect_information: the closure instantiating a '
                'defined function was not found (neither lambda args: '
                'substitute(body, map) nor a helper calling substitute)')


def _fn(node):
    n = getattr(node, '_parent', None)
    while n is not None:
        if isinstance(n, ast.FunctionDef):
            return getattr(n, '_qualname', n.name)
        n = getattr(n, '_parent', None)
    return '<module>'


def rule_r11(chk, prog):
    chk.rule('C11.R11', 'substitute returns a value of the kind it was '
             'given: a list for a list (possibly empty when everything was '
             'deleted), and None only for a single node that was deleted')
    m = prog.mod('nodes')
    f = m.func('substitute')
    from ..cfg import facts_at
    p0 = params_of(f)[0]
    n = 0
    for r in walk_no_nested(f):
        if not isinstance(r, ast.Return):
            continue
        v = r.value
        if v is None or (isinstance(v, ast.Constant) and v.value is None):
            n += 1
            facts = facts_at(f, r)
            ok = (f'isinstance({p0}, Node)', True) in facts
            chk.check('C11.R11', 'nodes.substitute', r, ok,
                      '"return None" is reachable for a list input (it is '
                      f'not dominated by isinstance({p0}, Node)): when every '
                      'top-level expression is deleted the caller gets None '
                      'instead of the empty list - apply_simp\'s assertion '
                      'fails for simplifications with declarations, and the '
                      'empty input can never be reached', loc=m.loc(r),
                      nontrivial=True)
    chk.floor('C11.R11', '"return None" sites of substitute', n, 1)


def rule_r15(chk, prog):
    chk.rule('C11.R15', 'a simplification is applied once: substitute() '
             'consumes the identity keys of the dictionary it is given, so '
             'no apply_simp / substitute call sits in a loop whose body does '
             'not also create the simplification it applies')
    n = 0
    for mn in ('strategy_hierarchical', 'strategy_ddmin'):
        m = prog.mod(mn)
        for q, f in m.funcs.items():
            if '<locals>' in q:
                continue
            for c in walk_no_nested(f):
                if not (isinstance(c, ast.Call) and (call_name(c) or ''
                                                     ).split('.')[-1] in (
                        'apply_simp', 'substitute') and len(c.args) >= 2):
                    continue
                n += 1
                s_ = c.args[1]
                root = s_
                while isinstance(root, (ast.Attribute, ast.Subscript)):
                    root = root.value
                if not isinstance(root, ast.Name):
                    continue
                # enclosing loops inside f
                p_ = getattr(c, '_parent', None)
                loops = []
                while p_ is not None and p_ is not f:
                    if isinstance(p_, (ast.For, ast.While)):
                        loops.append(p_)
                    p_ = getattr(p_, '_parent', None)
                for lp in loops:
                    bound = isinstance(lp, ast.For) and any(
                        isinstance(y, ast.Name) and y.id == root.id
                        for y in ast.walk(lp.target))
                    bound = bound or any(
                        isinstance(y, ast.Name) and y.id == root.id
                        and isinstance(y.ctx, ast.Store)
                        for b in lp.body for y in ast.walk(b))
                    chk.check('C11.R15', f'{mn}.{q}', c, bound,
                              f'"{unparse(c)[:50]}" is repeated by the loop '
                              f'at line {lp.lineno} with the same '
                              f'"{root.id}": the first application pops the '
                              'identity keys, the second one finds none - '
                              'the unmodified input is checked and reported '
                              'as the simplified candidate',
                              loc=m.loc(c), nontrivial=True)
    chk.floor('C11.R15', 'applications of a simplification in the '
              'strategies', n, 1)


def run(tier):
    prog = Program()
    chk = Check(
        PROP, 'other', tier,
        clauses_decided=[
            'replacement inserted as given (never re-scanned)',
            'the base and the map\'s owner are not modified in place',
            'rebuilt nodes are kept only if different; unchanged input '
            'returned as is',
            'both key kinds honoured at every position; one emission per '
            'element; None deletes',
            'declarations after the leading set-info/set-logic prefix, only '
            'when something changed',
            'formal->actual substitution is simultaneous',
        ],
        clauses_not_decided=[
            'full functional correctness of the rewrite on all trees '
            '(needs a model of the recursion)',
        ])
    paths = substitute_taint(chk, prog, 'C11.R1')
    chk.guard(rule_r2, chk, prog)
    chk.guard(rule_r34, chk, prog, paths)
    chk.guard(rule_r5, chk, prog)
    chk.guard(rule_r6, chk, prog)
    # substitute decides "unchanged" by Node equality, which short-cuts on
    # equal ids: ids must be unique across the main process and the workers
    from . import c12
    sub12 = Check('C12', 'other', tier, [], [])
    chk.guard(c12.rule_r4, sub12, prog)
    chk.adopt('C11.R7', 'node identities are unique across processes '
              '(shared with C12.R4): the identity short cut of Node.__eq__ '
              'cannot make a rebuilt spine node look unchanged, so a '
              'designated node is never silently kept', sub12)
    # substitute() keeps identity keys (ints) and structural keys (nodes)
    # in one dict: the two kinds of key are kept apart by a node hashing as
    # its data does (shared with C12.R3)
    sub12b = Check('C12', 'other', tier, [], [])
    chk.guard(c12.rule_r3, sub12b, prog)
    chk.adopt('C11.R8', 'a node hashes as its data: an identity key never '
              'meets a structurally keyed entry in the replacement map '
              '(shared with C12.R3)', sub12b)
    # "the one occurrence carrying a given identity": the inputs from which
    # simplifications are generated have pairwise distinct identities
    from . import c13, c05
    sub13 = Check('C13', 'other', tier, [], [])
    chk.guard(c13.rule_r1, sub13, prog)
    chk.adopt('C11.R9', 'every input from which simplifications are '
              'generated went through re-duplication: an identity-keyed '
              'simplification designates exactly one position (shared with '
              'C13.R1)', sub13)
    # a simplification is applied to the input it was computed for
    sub05 = Check('C05', 'other', tier, [], [])
    chk.guard(c05.rule_r4, sub05, prog)
    # (the echo of the checked list belongs to C05/C01, not to C11)
    Check.restrict(sub05, lambda wh, what: not what.startswith(
        ('Result(', '(False,', '(True,')))
    chk.adopt('C11.R10', 'the worker applies a simplification to the input '
              'the task was generated from (cache keyed by the task\'s '
              'base), so the designated identities exist in it (shared '
              'with C05.R4)', sub05)
    chk.guard(rule_r11, chk, prog)
    from .. import depthrec
    chk.guard(depthrec.report, chk, prog, 'C11.R12',
              'no function of the tree core that applies a simplification recurses over the nesting depth (directly, through helpers, generators, tuple comparison, deepcopy or the generic pickler)',
              [('nodes', 'substitute'), ('nodes', 'Node.__eq__'), ('nodes', 'Node.__hash__')],
              'substitute raises RecursionError for deep terms: the designated subtrees are not replaced')
    # identities are unique after re-duplication (shared with C13.R2-R4)
    sub13b = Check('C13', 'other', tier, [], [])
    chk.guard(c13.rule_r234, sub13b, prog)
    chk.adopt('C11.R13', 're-duplication gives every position its own '
              'identity (a rebuilt child is detected by identity, not by '
              'structural equality), so "the one occurrence carrying a given '
              'identity" exists (shared with C13.R2-R4)', sub13b)
    from . import c15 as _c15
    sub15 = Check('C15', 'other', tier, [], [])
    chk.guard(_c15.rule_r13, sub15, prog)
    chk.adopt('C11.R14', 'the declarations inserted are the requested ones: '
              'no record shares a mutable default between simplifications '
              '(shared with C15.R13)', sub15)
    chk.guard(rule_r15, chk, prog)
    extra = None
    if tier == 'thorough':
        from .. import selftest
        extra = selftest.run_for(PROP)
    return chk.finish(extra)
