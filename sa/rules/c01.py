"""C01 - output file reproduces the golden behaviour.

Partial, level 'other': decides the adoption discipline the behavioural
statement rests on (adopt only what was checked, who may write which file,
candidate file complete and process-private before the command starts,
acceptance predicate is the documented one).  Does not decide what the
command does on the final file."""
import ast

from ..astutil import (call_name, calls_in, walk_no_nested, params_of, kw,
                       is_const, opt_read, expand_locals, global_decls)
from ..cfg import cfg_of, expr_owner_node, facts_at
from ..fileeffects import inventory
from ..loader import Program, AnalysisError, unparse
from ..report import Check
from . import c05, c07, c09

PROP = 'C01'


def _fn(node):
    n = getattr(node, '_parent', None)
    while n is not None:
        if isinstance(n, ast.FunctionDef):
            return n
        n = getattr(n, '_parent', None)
    return None


def rule_r2(chk, prog):
    chk.rule('C01.R2', 'adoption sites and output writes are dominated by '
             'the success flag of the result they read; the written list is '
             'the adopted one')
    n = 0
    for modname, fnames in (('strategy_ddmin', ('_check_seq', '_check_par')),
                            ('strategy_hierarchical', ('reduce', ))):
        m = prog.mod(modname)
        for fname in fnames:
            f = m.func(fname)
            where = f'{modname}.{fname}'
            sites = c05.adoption_sites(m, f)
            for kind, s in sites:
                n += 1
                facts = facts_at(f, s if not isinstance(s, ast.stmt)
                                 else s.value)
                if kind == 'update':
                    src = unparse(s.args[0]) if s.args else ''
                    obj = src.split('.')[0]
                    ok = (f'{obj}.success', True) in facts and \
                        src == f'{obj}.exprs'
                    msg = (f'taskgen.update({src}) is not dominated by '
                           f'"{obj}.success" of the same result object, or '
                           'adopts something other than its exprs field')
                else:
                    # success, task = pickle.loads(result); exprs = f(task.exprs)
                    ok = ('success', True) in facts
                    # same unpack
                    unp = [st for st in walk_no_nested(f)
                           if isinstance(st, ast.Assign) and isinstance(
                               st.targets[0], ast.Tuple) and [
                                   unparse(x) for x in st.targets[0].elts
                               ] == ['success', 'task']]
                    ok = ok and len(unp) == 1 and unparse(
                        unp[0].value).startswith('pickle.loads(')
                    v = unparse(s.value)
                    ok = ok and v in ('nodes.reduplicate(task.exprs)',
                                      'task.exprs')
                    msg = ('the current input is rebound from a result that '
                           'is not known to be successful (success and task '
                           'must come from the same pickle.loads(result))')
                chk.check('C01.R2', where, s, ok, msg, loc=m.loc(s),
                          nontrivial=True)
    chk.floor('C01.R2', 'adoption sites', n, 3)
    # output writes: only in these functions, under the success fact
    writes = c05.output_writes(prog)
    chk.floor('C01.R2', 'calls of write_smtlib_to_file', len(writes), 3)
    allowed = {('strategy_ddmin', '_check_seq'), ('strategy_ddmin',
                                                  '_check_par'),
               ('strategy_hierarchical', 'reduce')}
    for (m, c) in writes:
        f = _fn(c)
        q = f._qualname if f is not None else '<module>'
        where = f'{m.name}.{q}'
        if (m.name, q) not in allowed:
            # the unreachable --parser-test remnant in cli is reported as
            # informational only if it is dominated by parser_test
            facts = facts_at(f, c) if f is not None else set()
            if ('options.args().parser_test', True) in facts:
                chk.info('C01.R2', f'{where}: write under --parser-test '
                         '(check_options exits before for that option)',
                         loc=m.loc(c))
                continue
            chk.check('C01.R2', where, c, False,
                      'the output file is written outside the adoption '
                      'sites of the two strategies: its content was never '
                      'handed to the command (e.g. the re-rendered, '
                      'unreduced input)', loc=m.loc(c), nontrivial=True)
            continue
        facts = facts_at(f, c)
        ok = ('result.success', True) in facts or ('success', True) in facts
        chk.check('C01.R2', where, c, ok,
                  'the output file is written without a dominating success '
                  'test of the result', loc=m.loc(c), nontrivial=True)


def rule_r3(chk, prog, effects):
    chk.rule('C01.R3', 'who may write: the output file is written only '
             'through nodeio.write_smtlib_to_file; nothing writes the input '
             'file')
    n = 0
    for e in effects:
        if not e.writes:
            continue
        if 'OUTFILE' in e.prov:
            n += 1
            ok = e.mod.name == 'nodeio' and e.func is not None and \
                e.func._qualname == 'write_smtlib_to_file'
            chk.check('C01.R3', e.where, e.call, ok,
                      f'{e.kind} ({e.detail}) writes a path derived from the '
                      'output file outside nodeio.write_smtlib_to_file',
                      loc=e.mod.loc(e.call), nontrivial=True)
        if any('INFILE' in t for t in e.prov):
            chk.check('C01.R3', e.where, e.call, False,
                      f'{e.kind} modifies the input file',
                      loc=e.mod.loc(e.call), nontrivial=True)
    chk.floor('C01.R3', 'write effects on the output path', n, 1)
    reads = [e for e in effects if any('INFILE' in t for t in e.prov)]
    chk.instance('C01.R3', 'package', f'{len(reads)} effects on the input '
                 'file, all read-only', all(not e.writes for e in reads),
                 'provenance classification of every file-effect call',
                 nontrivial=True)


def rule_r4(chk, prog):
    chk.rule('C01.R4', 'the candidate file is complete before the command '
             'starts, private to the checking process, and the command is '
             'started only from check/do_golden_runs')
    m = prog.mod('checker')
    ce = m.func('check_exprs')
    cfg = cfg_of(ce)
    wr = [c for c in calls_in(ce) if (call_name(c) or '').endswith(
        'write_smtlib_for_checking')]
    ck = [c for c in calls_in(ce) if call_name(c) == 'check']
    ok = len(wr) == 1 and len(ck) == 1
    if ok:
        marks = {expr_owner_node(cfg, wr[0]): 'write'}
        IN, OUT = cfg.dominators_facts(marks)
        n = expr_owner_node(cfg, ck[0])
        dom = 'write' in (IN.get(n) or ()) or (
            n in marks and False)
        # same statement is not allowed (order of evaluation)
        ok = dom and unparse(wr[0].args[0]) == unparse(ck[0].args[0])
        params = params_of(ce)
        ok = ok and unparse(wr[0].args[1]) == params[0]
    chk.check('C01.R4', 'checker.check_exprs', 'write dominates check, same '
              'file, the list under test', ok,
              'check_exprs does not first write exactly the list under test '
              'to the file it then checks', loc=m.loc(ce), nontrivial=True)
    rets = [r for r in walk_no_nested(ce) if isinstance(r, ast.Return)]
    ok = len(rets) == 1 and ck and rets[0].value is ck[0]
    chk.check('C01.R4', 'checker.check_exprs', 'returns the verdict of '
              'check()', bool(ok), 'check_exprs does not return check()\'s '
              'verdict unchanged', loc=m.loc(ce), nontrivial=True)
    # writer closes the file before returning
    nio = prog.mod('nodeio')
    wf = nio.func('write_smtlib_for_checking')
    opens = [c for c in calls_in(wf) if call_name(c) == 'open']
    in_with = all(isinstance(getattr(c, '_parent', None), ast.withitem)
                  for c in opens)
    chk.check('C01.R4', 'nodeio.write_smtlib_for_checking',
              'file closed before return', bool(opens) and in_with,
              'the candidate file is not written inside "with open(...)": '
              'buffered data may still be unwritten when the command starts',
              loc=nio.loc(wf), nontrivial=True)
    # every expression of the list is written
    loops = [l for l in walk_no_nested(wf) if isinstance(l, ast.For)]
    ok = len(loops) == 1 and unparse(loops[0].iter) == params_of(wf)[1] and \
        any(call_name(c) == '__write_smtlib' and unparse(
            c.args[1]) == unparse(loops[0].target) for c in calls_in(
                loops[0]))
    chk.check('C01.R4', 'nodeio.write_smtlib_for_checking',
              'every expression written', ok,
              'not every expression of the candidate is written',
              loc=nio.loc(wf), nontrivial=True)
    # process-private name: os.getpid() evaluated at every call
    t = prog.mod('tmpfiles')
    g = t.func('get_tmp_filename')
    rets = [r for r in walk_no_nested(g) if isinstance(r, ast.Return)]
    ok = bool(rets)
    for r in rets:
        v = expand_locals(g, r.value)
        has_pid = any(isinstance(c, ast.Call) and call_name(c) == 'os.getpid'
                      for c in ast.walk(v))
        is_tmp = any(isinstance(c, ast.Call) and (call_name(c) or
                                                  '').startswith('tempfile.')
                     for c in ast.walk(v))
        ok = ok and (has_pid or is_tmp)
    gl = global_decls(g)
    chk.check('C01.R4', 'tmpfiles.get_tmp_filename', 'name depends on '
              'os.getpid() at call time', ok and not gl,
              'the candidate file name is not computed from os.getpid() on '
              'every call (a name cached in a module global before the '
              'workers are forked is shared by all of them: one worker runs '
              'the command on another worker\'s candidate)', loc=t.loc(g),
              nontrivial=True)
    # ... and, where checks run in threads of one process, on the thread
    thread_pools = []
    for om in prog.pkg_modules():
        if 'tests' in om.rel():
            continue
        for c in ast.walk(om.tree):
            if isinstance(c, ast.Call) and (call_name(c) or '').split(
                    '.')[-1] in ('ThreadPool', 'ThreadPoolExecutor',
                                 'Thread') and (call_name(c) or '').split(
                                     '.')[0] in ('multiprocessing',
                                                 'concurrent', 'threading',
                                                 'ThreadPool',
                                                 'ThreadPoolExecutor'):
                fpool = _fn(c)
                if om.name.startswith('strategy_') or om.name == 'checker':
                    thread_pools.append((om, c, fpool))
    has_tid = all(any(isinstance(c, ast.Call) and call_name(c) in (
        'threading.get_ident', 'threading.get_native_id',
        'threading.current_thread') for c in ast.walk(expand_locals(
            g, r.value))) or any(
                isinstance(c, ast.Call) and (call_name(c) or '').startswith(
                    'tempfile.') for c in ast.walk(expand_locals(
                        g, r.value))) for r in rets) if rets else False
    for (om, c, fpool) in thread_pools:
        chk.check('C01.R4', f'{om.name}.'
                  f'{fpool._qualname if fpool else "<module>"}', c, has_tid,
                  f'{unparse(c)[:50]} runs the checks in threads of one '
                  'process, but the candidate file name depends on the '
                  'process id only: all concurrent checks write the same '
                  'file, a command reads another check\'s candidate and the '
                  'verdict goes to the wrong one', loc=om.loc(c),
                  nontrivial=True)
    chk.instance('C01.R4', 'package', f'{len(thread_pools)} thread-based '
                 'pools in the strategies', True,
                 'the name is per process' + (' and per thread' if has_tid
                                              else ''), nontrivial=False)
    # Popen only in execute; execute only from check / do_golden_runs
    spawn = []
    for om in prog.pkg_modules():
        for c in ast.walk(om.tree):
            if isinstance(c, ast.Call) and (call_name(c) or '') in (
                    'subprocess.Popen', 'subprocess.run', 'subprocess.call',
                    'subprocess.check_output', 'os.system', 'os.popen'):
                spawn.append((om, c))
    chk.floor('C01.R4', 'process-spawning call sites', len(spawn), 2)
    for (om, c) in spawn:
        f = _fn(c)
        q = f._qualname if f else '<module>'
        if om.name in ('debug_utils', 'version'):
            continue
        chk.check('C01.R4', f'{om.name}.{q}', c,
                  (om.name, q) == ('checker', 'execute'),
                  'a process is started outside checker.execute',
                  loc=om.loc(c), nontrivial=True)
    callers = []
    for om in prog.pkg_modules():
        for c in ast.walk(om.tree):
            if isinstance(c, ast.Call) and isinstance(
                    c.func, (ast.Name, ast.Attribute)):
                r = prog.resolve_expr(om, c.func)
                if r and r[0] == 'func' and r[1] is m and r[2] == 'execute':
                    f = _fn(c)
                    callers.append((om.name, f._qualname if f else ''))
    ok = set(callers) == {('checker', 'check'), ('checker',
                                                 'do_golden_runs')}
    chk.check('C01.R4', 'checker.execute', f'callers {sorted(set(callers))}',
              ok, 'the command is run from somewhere other than check() and '
              'do_golden_runs()', loc=m.loc(m.func('execute')),
              nontrivial=True)


def run(tier):
    prog = Program()
    chk = Check(
        PROP, 'other', tier,
        clauses_decided=[
            'a result tagged successful carries exactly the list for which '
            'check_exprs returned true (C01.R1 = C05.R4)',
            'adoption and every output write are dominated by that success '
            'flag; the written list is the adopted one; writes only at the '
            'adoption sites',
            'only nodeio.write_smtlib_to_file writes the output path; '
            'nothing writes the input file',
            'candidate file written completely, closed, process-private, '
            'before the command starts; processes are started only by '
            'checker.execute from check/do_golden_runs',
            'the acceptance predicate and its wiring are the documented '
            'ones (C09.R1-R3 re-checked here)',
            'candidate and output renderers satisfy the same emission '
            'contract (C07.R1-R4 re-checked here)',
        ],
        clauses_not_decided=[
            'what the command really does on the final file',
            'the round-trip lemma of C07/C08 (reader inverse of renderer); '
            'only the renderer contract is re-checked here',
            'pickling fidelity between worker and parent (C12)',
        ])
    chk.guard(c05.rule_r4, chk, prog, 'C01.R1')
    chk.guard(rule_r2, chk, prog)
    effects = inventory(prog)
    chk.guard(rule_r3, chk, prog, effects)
    chk.guard(rule_r4, chk, prog)
    chk.guard(c05.rule_adopt_write, chk, prog, 'C01.R2w')
    # acceptance predicate (shared with C09)
    sub = Check('C09', 'proof', tier, [], [])
    chk.guard(c09.rule_r1, sub, prog)
    chk.guard(c09.rule_r2, sub, prog)
    chk.guard(c09.rule_r3, sub, prog)
    chk.adopt('C01.R5', 'the acceptance predicate and its wiring equal the '
              'documented rule (shared with C09.R1-R3)', sub)
    # the two renderers agree token by token (shared with C07)
    sub7 = Check('C07', 'other', tier, [], [])
    chk.guard(c07.rule_emitters, sub7, prog, None)
    chk.guard(c07.rule_callers, sub7, prog)
    chk.adopt('C01.R6', 'the candidate renderer and the output renderers '
              'emit every node exactly once, completely and in order '
              '(shared with C07.R1-R4): the output file has the token '
              'sequence of the accepted candidate', sub7)
    # between the check and the write the adopted list only passes through
    # reduplicate, which must not change a token (shared with C13)
    from . import c13
    sub13 = Check('C13', 'other', tier, [], [])
    chk.guard(c13.rule_r234, sub13, prog)
    chk.adopt('C01.R7', 're-duplication between acceptance and write is '
              'token-preserving: rebuilt nodes are made of the original '
              'text / the rebuilt children only (shared with C13.R2-R4)',
              sub13)
    # what is compared and which executable runs (shared with C09)
    sub9 = Check('C09', 'proof', tier, [], [])
    chk.guard(c09.rule_r7, sub9, prog)
    chk.guard(c09.rule_r8, sub9, prog)
    chk.adopt('C01.R8', 'the compared streams are the command\'s bytes '
              'decoded once, and each command runs its own private copy '
              '(shared with C09.R7, C09.R8)', sub9)
    from . import c06 as _c06
    sub6 = Check('C06', 'other', tier, [], [])
    chk.guard(_c06.rule_r8, sub6, prog)
    chk.adopt('C01.R12', 'the input and output paths the user gave are not '
              'replaced after parsing (an output path derived from the '
              'input\'s name can be the input itself, which is then '
              'overwritten; shared with C06.R8)', sub6)
    sub9b = Check('C09', 'proof', tier, [], [])
    chk.guard(c09.rule_r4, sub9b, prog)
    chk.adopt('C01.R11', 'the command that is run is the command that was '
              'given, compared as configured: the positional "cmd" takes '
              'the remainder of the command line verbatim, and the '
              'comparison options (--ignore-*, --match-*, --timeout*) have '
              'the types, defaults and destinations the checker reads '
              '(shared with C09.R4)', sub9b)
    from .. import streams
    chk.guard(streams.report, chk, prog, 'C01.R15',
              'the run record carries each stream under its own name (by '
              'position in the declared field order)',
              'the comparison the user configured for one stream is applied to the other: the output file does not reproduce the golden behaviour under the configured comparison')
    from .. import genreuse
    chk.guard(genreuse.rule, chk, prog, 'C01.R9',
              'what the writers render is consumed once: no one-shot '
              'iterator over the rendered expressions is traversed twice '
              'on one path', {'nodeio': None, 'checker': None},
              'the output file (or the candidate handed to the command) is '
              'written from an exhausted iterator, i.e. empty, although the '
              'accepted candidate was complete')
    from .. import memo

    def _memo_rule(chk, prog):
        chk.rule('C01.R10', 'memoised functions on the candidate path: the cached value depends only on the cache key')
        memo.report(chk, prog, 'C01.R10', 'memoised functions on the candidate path',
                    lambda m, q: m.name in ('tmpfiles', 'nodeio', 'checker'),
                    'forked workers and threads inherit / share the table, so two checking processes can be handed the same candidate file name or a stale rendering: a candidate is accepted on the strength of another candidate')

    chk.guard(_memo_rule, chk, prog)
    from .. import idkeys
    chk.guard(idkeys.report, chk, prog, 'C01.R13', 'no object address (builtin id()) outlives the function that took it: none keys a module-level or object-level container, is stored on an object or put into a record',
              'a cache of rendered text / unpickled inputs / verdicts keyed by an address hands the command the text of a candidate that has been freed: the file that is checked is not the candidate that is adopted')
    # the candidate writer does not turn a failed write into a value
    from . import c05 as _c05w
    sub05w = Check('C05', 'other', tier, [], [])
    chk.guard(_c05w.rule_r9, sub05w, prog)
    Check.restrict(sub05w, lambda wh, what: str(wh).startswith('nodeio.'))
    chk.adopt('C01.R14', 'the writers of the candidate file and of the '
              'output file raise when the write fails (their handlers '
              're-raise on every path): the command is never run on the '
              'stale file of the previous candidate (shared with the '
              'writer part of C05.R9)', sub05w)
    extra = None
    if tier == 'thorough':
        from .. import selftest
        extra = selftest.run_for(PROP)
    return chk.finish(extra)
