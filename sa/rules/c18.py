"""C18 - sequential runs are reproducible.  Partial, level 'other': absence
of the *sources* of run-to-run variation in the code that orders, generates
and adopts candidates.  Byte-identity of two real runs is an experiment and
is not decided."""
import ast

from ..astutil import (call_name, calls_in, walk_no_nested, params_of, kw,
                       is_const, dotted)
from ..cfg import cfg_of, expr_owner_node, facts_at
from ..loader import Program, AnalysisError, unparse
from ..report import Check

PROP = 'C18'

DECISION = ('nodes', 'smtlib', 'mutator_utils', 'strategy_ddmin',
            'strategy_hierarchical', 'checker', 'mutators', 'nodeio',
            'tmpfiles', 'cli', 'options', 'debug_utils', 'progress')

ORDER_CONSUMERS = ('list', 'tuple', 'iter', 'next', 'enumerate', 'zip',
                   'reversed', 'map', 'filter', 'min', 'max')


def decision_modules(prog):
    return [m for m in prog.pkg_modules()
            if m.name in DECISION or m.name.startswith('mutators_')]


def _fn(node):
    n = getattr(node, '_parent', None)
    while n is not None:
        if isinstance(n, ast.FunctionDef):
            return n
        n = getattr(n, '_parent', None)
    return None


# functions one of whose returns is a set (filled by rule_r1_sets): the
# result of a call is then a set for the caller, in any module
SET_RETURNING = set()


def is_set_expr(e, setnames, dictsets):
    """Syntactic "this expression is a set"."""
    if isinstance(e, (ast.Set, ast.SetComp)):
        return True
    if isinstance(e, ast.Call):
        nm = call_name(e)
        if nm in ('set', 'frozenset'):
            return True
        if nm and nm.split('.')[-1] in SET_RETURNING:
            return True
        if isinstance(e.func, ast.Attribute) and e.func.attr in (
                'union', 'intersection', 'difference',
                'symmetric_difference', 'copy') and is_set_expr(
                    e.func.value, setnames, dictsets):
            return True
        if isinstance(e.func, ast.Attribute) and e.func.attr in (
                'setdefault', 'get') and len(e.args) == 2 and is_set_expr(
                    e.args[1], setnames, dictsets):
            return True
        if isinstance(e.func, ast.Attribute) and e.func.attr in (
                'keys', ) and False:
            return False
    if isinstance(e, ast.Name) and e.id in setnames:
        return True
    if isinstance(e, ast.Attribute) and unparse(e) in setnames:
        return True
    if isinstance(e, ast.Subscript) and unparse(e.value) in dictsets:
        return True
    if isinstance(e, ast.BinOp) and isinstance(
            e.op, (ast.BitOr, ast.BitAnd, ast.Sub, ast.BitXor)) and (
                is_set_expr(e.left, setnames, dictsets)
                or is_set_expr(e.right, setnames, dictsets)):
        return True
    # set algebra on dict views (d.keys() & other, d.items() - other)
    # yields a plain set
    if isinstance(e, ast.BinOp) and isinstance(
            e.op, (ast.BitOr, ast.BitAnd, ast.Sub, ast.BitXor)) and any(
                isinstance(o, ast.Call) and isinstance(
                    o.func, ast.Attribute) and o.func.attr in ('keys',
                                                               'items')
                and not o.args for o in (e.left, e.right)):
        return True
    return False


def rule_r1_sets(chk, prog):
    chk.rule('C18.R1', 'no order-sensitive consumption of a set (iteration, '
             'list(), pop(), ...): sets are used for membership only or '
             'sorted without key')
    nsets = 0
    nuse = 0
    # pre-pass: which functions hand out a set (possibly among other
    # things)?  Their callers consume it.
    SET_RETURNING.clear()
    for _round in range(2):
        for m in decision_modules(prog):
            modsets, dictsets = set(), set()
            for name, vals in m.globals.items():
                if any(is_set_expr(v, set(), set()) for v in vals):
                    modsets.add(name)
            for c in ast.walk(m.tree):
                if isinstance(c, ast.Call) and isinstance(
                        c.func, ast.Attribute) and \
                        c.func.attr == 'setdefault' and len(
                            c.args) == 2 and is_set_expr(c.args[1], set(),
                                                         set()):
                    dictsets.add(unparse(c.func.value))
                if isinstance(c, ast.Assign) and isinstance(
                        c.targets[0], ast.Subscript) and is_set_expr(
                            c.value, set(), set()):
                    dictsets.add(unparse(c.targets[0].value))
            for q, f in m.funcs.items():
                if '<locals>' in q:
                    continue
                names = set(modsets)
                for st in walk_no_nested(f):
                    if isinstance(st, ast.Assign) and is_set_expr(
                            st.value, names, dictsets):
                        for t in st.targets:
                            if isinstance(t, ast.Name):
                                names.add(t.id)
                for r in walk_no_nested(f):
                    if isinstance(r, ast.Return) and r.value is not None \
                            and is_set_expr(r.value, names, dictsets):
                        SET_RETURNING.add(q.split('.')[-1])
    for m in decision_modules(prog):
        # scopes: module + each function
        scopes = [(None, m.tree)] + [(q, f) for q, f in m.funcs.items()]
        modsets = set()
        dictsets = set()
        for name, vals in m.globals.items():
            if any(is_set_expr(v, set(), set()) for v in vals):
                modsets.add(name)
        # dict-of-sets: D.setdefault(k, set()) / D[k] = set()
        for c in ast.walk(m.tree):
            if isinstance(c, ast.Call) and isinstance(
                    c.func, ast.Attribute) and c.func.attr == 'setdefault' \
                    and len(c.args) == 2 and is_set_expr(c.args[1], set(),
                                                         set()):
                dictsets.add(unparse(c.func.value))
            if isinstance(c, ast.Assign) and isinstance(
                    c.targets[0], ast.Subscript) and is_set_expr(
                        c.value, set(), set()):
                dictsets.add(unparse(c.targets[0].value))
        # instance attributes holding sets (visible in all methods)
        attrsets = set()
        for st in ast.walk(m.tree):
            if isinstance(st, ast.Assign) and is_set_expr(
                    st.value, set(), set()):
                for t in st.targets:
                    if isinstance(t, ast.Attribute) and isinstance(
                            t.value, ast.Name) and t.value.id == 'self':
                        attrsets.add(unparse(t))
        for q, scope in scopes:
            setnames = set(modsets) | attrsets
            if q is not None:
                changed = True
                while changed:
                    changed = False
                    for st in walk_no_nested(scope):
                        if isinstance(st, ast.Assign) and is_set_expr(
                                st.value, setnames, dictsets):
                            for t in st.targets:
                                tn = unparse(t)
                                if isinstance(t, (ast.Name, ast.Attribute)) \
                                        and tn not in setnames:
                                    setnames.add(tn)
                                    changed = True
            nsets += len(setnames - modsets) if q is not None else len(
                modsets)
            nodes_ = walk_no_nested(scope) if q is not None else [
                n for n in ast.iter_child_nodes(scope)
                if not isinstance(n, (ast.FunctionDef, ast.ClassDef))]
            if q is None:
                nodes_ = [x for n in nodes_ for x in ast.walk(n)]
            for n in nodes_:
                bad = None
                src = None
                if isinstance(n, (ast.For, ast.comprehension)) and \
                        is_set_expr(n.iter, setnames, dictsets):
                    bad, src = 'iteration over', n.iter
                elif isinstance(n, ast.Call):
                    nm = call_name(n)
                    if nm in ORDER_CONSUMERS and n.args and any(
                            is_set_expr(a, setnames, dictsets)
                            for a in n.args):
                        bad = f'{nm}() of'
                        src = [a for a in n.args
                               if is_set_expr(a, setnames, dictsets)][0]
                    elif nm == 'sorted' and n.args and is_set_expr(
                            n.args[0], setnames, dictsets) and kw(
                                n, 'key') is not None:
                        bad, src = 'sorted(key=...) of', n.args[0]
                    elif isinstance(n.func, ast.Attribute) and \
                            n.func.attr == 'pop' and is_set_expr(
                                n.func.value, setnames, dictsets) and \
                            not n.args:
                        bad, src = 'pop() on', n.func.value
                    elif isinstance(n.func, ast.Attribute) and \
                            n.func.attr in ('join', 'extend', 'update') and \
                            n.args and is_set_expr(n.args[0], setnames,
                                                   dictsets) and not \
                            is_set_expr(n.func.value, setnames, dictsets):
                        bad, src = f'{n.func.attr}() of', n.args[0]
                elif isinstance(n, ast.Starred) and is_set_expr(
                        n.value, setnames, dictsets):
                    bad, src = 'unpacking of', n.value
                if bad:
                    nuse += 1
                    where = f'{m.name}.{q}' if q else m.name
                    chk.check('C18.R1', where, n if not isinstance(
                        n, ast.comprehension) else src, False,
                              f'{bad} the set "{unparse(src)[:50]}": the '
                              'order of a set of strings or nodes depends '
                              'on PYTHONHASHSEED (node hashes are derived '
                              'from string hashes), so the order of '
                              'candidates / inserted declarations / tried '
                              'constants differs between runs',
                              loc=m.loc(n if hasattr(n, 'lineno') else src),
                              nontrivial=True)
    chk.floor('C18.R1', 'set-typed names examined', nsets, 4)
    chk.instance('C18.R1', 'package', f'{nsets} set-typed names; '
                 f'{nuse} order-sensitive consumptions', nuse == 0,
                 'all other uses are add/membership/len/sorted-without-key',
                 nontrivial=True)


NONDET_CALLS = {
    'hash': 'hash()', 'id': 'id()', 'os.getpid': 'os.getpid()',
    'threading.get_ident': 'threading.get_ident()',
    'time.time': 'time.time()', 'time.process_time': 'time.process_time()',
    'time.perf_counter': 'time.perf_counter()',
    'time.monotonic': 'time.monotonic()', 'os.listdir': 'os.listdir()',
    'glob.glob': 'glob.glob()', 'os.scandir': 'os.scandir()',
    'uuid.uuid4': 'uuid', 'os.urandom': 'os.urandom',
}


def _uses_of(fn, name):
    return [x for x in ast.walk(fn) if isinstance(x, ast.Name)
            and x.id == name and isinstance(x.ctx, ast.Load)]


def rule_r1_calls(chk, prog):
    chk.rule('C18.R1b', 'hash/id/pid/thread-id/clock/random/directory-order '
             'values reach only equality tests, logs, statistics, time '
             'limits or the private temporary file name')
    n = 0
    _PKG[:] = [prog]
    for m in decision_modules(prog):
        for c in ast.walk(m.tree):
            if not isinstance(c, ast.Call):
                continue
            nm = call_name(c) or ''
            label = NONDET_CALLS.get(nm)
            if nm.startswith('random.') or nm == 'os.environ.get':
                label = nm
            if label is None:
                continue
            n += 1
            f = _fn(c)
            q = f._qualname if f is not None else '<module>'
            where = f'{m.name}.{q}'
            ok, why = _benign_use(m, f, c, label)
            chk.check('C18.R1b', where, f'{label}: {why}', ok,
                      f'{label} influences candidate order, adoption or '
                      f'rendered text ({why}): the run is not reproducible',
                      loc=m.loc(c), nontrivial=True, argument=why)
    chk.floor('C18.R1b', 'nondeterminism-source call sites', n, 10)
    # os.environ reads
    for m in decision_modules(prog):
        for a in ast.walk(m.tree):
            if isinstance(a, ast.Attribute) and unparse(a) == 'os.environ':
                chk.check('C18.R1b', m.name, a, False,
                          'behaviour depends on the environment',
                          loc=m.loc(a))


CONTENT_SINKS = ('write', 'writelines', 'send', 'put', 'append', 'add',
                 'extend', 'insert', 'setdefault', 'update')


def _ident_value_benign(m, f, e, depth):
    """A process/thread identifier may become (part of) a file name, be
    passed on as such, be stored and be compared for equality; it may not
    become node text, file content, a container element, a key or an
    operand of an ordering."""
    if depth > 8:
        return False, 'flow too long to follow'
    # the enclosing text-building expression
    t = e
    while True:
        p = getattr(t, '_parent', None)
        if isinstance(p, (ast.FormattedValue, ast.JoinedStr)):
            t = p
            continue
        if isinstance(p, ast.BinOp) and isinstance(p.op, (ast.Add, ast.Mod)):
            t = p
            continue
        if isinstance(p, ast.Call) and t in p.args and (
                (call_name(p) or '') in ('str', 'os.path.join', 'repr')
                or (isinstance(p.func, ast.Attribute)
                    and p.func.attr == 'format')):
            t = p
            continue
        if isinstance(p, ast.Tuple) and isinstance(
                getattr(p, '_parent', None), ast.BinOp):
            t = p
            continue
        break
    p = getattr(t, '_parent', None)
    if isinstance(p, ast.keyword):
        p = getattr(p, '_parent', None)
    if isinstance(p, ast.Attribute) and p.value is t:
        # an attribute of the value travels like the value
        return _ident_value_benign(m, f, p, depth + 1)
    if isinstance(p, ast.Compare):
        if all(isinstance(o, (ast.Eq, ast.NotEq, ast.Is, ast.IsNot))
               for o in p.ops):
            return True, ''
        return False, f'ordered: {unparse(p)[:40]}'
    if isinstance(p, ast.Call):
        nm = call_name(p) or ''
        if nm.split('.')[-1] == 'Node':
            return False, 'becomes node text'
        if isinstance(p.func, ast.Attribute) and \
                p.func.attr in CONTENT_SINKS:
            return False, f'passed to .{p.func.attr}()'
        if nm in ('print', 'sorted', 'min', 'max', 'hash'):
            return False, f'passed to {nm}()'
        return True, ''
    if isinstance(p, ast.Return):
        if f is None:
            return False, 'returned at module level'
        name = f.name
        sites = []
        for om in _PKG[0].pkg_modules() if _PKG else []:
            for c in ast.walk(om.tree):
                if isinstance(c, ast.Call) and (call_name(c) or '').split(
                        '.')[-1] == name:
                    sites.append((om, c))
        for (om, c) in sites:
            ok, why = _ident_value_benign(om, _fn(c), c, depth + 1)
            if not ok:
                return False, f'result of {name}(): {why}'
        return True, ''
    if isinstance(p, ast.Assign) and p.value is t:
        for tg in p.targets:
            if isinstance(tg, ast.Name) and f is None:
                # class / module level binding: read as an attribute
                # anywhere, or by name outside the functions
                for u in ast.walk(m.tree):
                    hit = isinstance(u, ast.Attribute) and \
                        u.attr == tg.id and isinstance(u.ctx, ast.Load)
                    hit = hit or (isinstance(u, ast.Name) and u.id == tg.id
                                  and isinstance(u.ctx, ast.Load)
                                  and _fn(u) is None)
                    if hit:
                        ok, why = _ident_value_benign(m, _fn(u), u,
                                                      depth + 1)
                        if not ok:
                            return False, why
            elif isinstance(tg, ast.Name):
                for u in ast.walk(f):
                    if isinstance(u, ast.Name) and u.id == tg.id and \
                            isinstance(u.ctx, ast.Load):
                        ok, why = _ident_value_benign(m, f, u, depth + 1)
                        if not ok:
                            return False, why
            elif isinstance(tg, ast.Attribute):
                for u in ast.walk(m.tree):
                    if isinstance(u, ast.Attribute) and u.attr == tg.attr \
                            and isinstance(u.ctx, ast.Load):
                        ok, why = _ident_value_benign(m, _fn(u), u,
                                                      depth + 1)
                        if not ok:
                            return False, why
            else:
                return False, f'stored into {unparse(tg)[:30]}'
        return True, ''
    if isinstance(p, ast.Expr):
        return True, ''
    return False, f'used in {unparse(p)[:40] if p is not None else "?"}'


_PKG = []


def _benign_use(m, f, c, label):
    """(ok, reason): the value of call c flows only to benign sinks."""
    par = getattr(c, '_parent', None)
    # inside a logging call / f-string of a log
    p = par
    while p is not None and not isinstance(p, ast.stmt):
        if isinstance(p, ast.Call) and (call_name(p) or '').startswith(
                ('logging.', '_print_progress', 'print')):
            return True, 'logged only'
        p = getattr(p, '_parent', None)
    if f is None and label in ('os.getpid()', 'threading.get_ident()'):
        ok, why = _ident_value_benign(m, f, c, 0)
        if ok:
            return True, 'compared for equality / names a private file'
        return False, f'module level ({why})'
    if f is None:
        # "X = <call>" in a class body / at module level: every read of X
        # (as a name there, as an attribute anywhere) is an operand of an
        # (in)equality test
        if isinstance(par, ast.Assign) and len(par.targets) == 1 and \
                isinstance(par.targets[0], ast.Name) and par.value is c:
            v = par.targets[0].id
            reads = []
            for x in ast.walk(m.tree):
                if isinstance(x, ast.Attribute) and x.attr == v and \
                        isinstance(x.ctx, ast.Load):
                    reads.append(x)
                elif isinstance(x, ast.Name) and x.id == v and isinstance(
                        x.ctx, ast.Load):
                    reads.append(x)
            for u in reads:
                up = getattr(u, '_parent', None)
                if isinstance(up, ast.Compare) and all(
                        isinstance(o, (ast.Eq, ast.NotEq, ast.Is, ast.IsNot))
                        for o in up.ops):
                    continue
                return False, (f'module level; "{v}" used in '
                               f'{unparse(up)[:40]}')
            if reads:
                return True, (f'kept in "{v}" and compared for equality '
                              'only')
        return False, 'module level'
    q = f._qualname
    if label in ('os.getpid()', 'threading.get_ident()'):
        ok, why = _ident_value_benign(m, f, c, 0)
        if ok:
            return True, 'names a process-private file / compared only'
        return False, f'used outside a private file name ({why})'
    if label == 'hash()':
        if (m.name, q) == ('nodes', 'Node.__init__'):
            return True, ('stored in the hash slot: read only by __hash__ '
                          'and as a sound-direction shortcut of __eq__ '
                          '(C12.R2)')
        # x = hash(...): every use of x is an (in)equality operand or a
        # plain store
        if isinstance(par, ast.Assign) and isinstance(par.targets[0],
                                                      ast.Name):
            v = par.targets[0].id
            for u in _uses_of(f, v):
                up = getattr(u, '_parent', None)
                if isinstance(up, ast.Compare) and all(
                        isinstance(o, (ast.Eq, ast.NotEq))
                        for o in up.ops):
                    continue
                if isinstance(up, ast.Assign):
                    # stored into a global cache key: itself only compared
                    continue
                return False, f'"{v}" used in {unparse(up)[:40]}'
            return True, 'compared for equality only (cache key)'
        return False, 'hash value used directly'
    if label.startswith('time.'):
        # allowed: differences for runtime, statistics, RunInfo.runtime,
        # logging.  Not allowed: in a branch condition.
        st = c
        while st is not None and not isinstance(st, ast.stmt):
            st = getattr(st, '_parent', None)
        tainted = set()
        if isinstance(st, ast.Assign):
            for t in st.targets:
                if isinstance(t, ast.Name):
                    tainted.add(t.id)
        changed = True
        while changed:
            changed = False
            for s in walk_no_nested(f):
                if isinstance(s, ast.Assign) and any(
                        isinstance(x, ast.Name) and x.id in tainted
                        for x in ast.walk(s.value)):
                    for t in s.targets:
                        if isinstance(t, ast.Name) and t.id not in tainted:
                            tainted.add(t.id)
                            changed = True
        for s in walk_no_nested(f):
            test = None
            if isinstance(s, (ast.If, ast.While)):
                test = s.test
            elif isinstance(s, ast.IfExp):
                test = s.test
            if test is not None and any(
                    (isinstance(x, ast.Name) and x.id in tainted)
                    or x is c for x in ast.walk(test)):
                return False, f'decides the branch "{unparse(test)[:40]}"'
        return True, 'runtime measurement (statistics / time limit only)'
    if label in ('glob.glob()', 'os.listdir()', 'os.scandir()'):
        if m.name == 'debug_utils':
            return True, 'profile rendering only'
        return False, 'directory order'
    if label == 'id()':
        return False, 'object address'
    return False, 'unexpected source'


def rule_r2(chk, prog):
    chk.rule('C18.R2', 'time never decides: RunInfo.runtime and task '
             'runtimes reach only logs, statistics and the once-only '
             'default time limit')
    n = 0
    for m in decision_modules(prog):
        for a in ast.walk(m.tree):
            if isinstance(a, ast.Attribute) and a.attr == 'runtime' and \
                    isinstance(a.ctx, ast.Load):
                n += 1
                f = _fn(a)
                q = f._qualname if f else '<module>'
                # in a test?
                p = getattr(a, '_parent', None)
                in_test = None
                child = a
                while p is not None and not isinstance(p, ast.FunctionDef):
                    if isinstance(p, (ast.If, ast.While, ast.IfExp)) and \
                            child is p.test:
                        in_test = p
                    child = p
                    p = getattr(p, '_parent', None)
                ok = in_test is None
                if in_test is not None:
                    # "task.runtime is None" only distinguishes aborted
                    # results in the statistics
                    t = unparse(in_test.test)
                    if (m.name, q) == ('strategy_hierarchical',
                                       'MutatorStats.add'):
                        ok = True
                chk.check('C18.R2', f'{m.name}.{q}', unparse(
                    in_test.test) if in_test is not None else a, ok,
                          'a measured run time decides a branch outside the '
                          'statistics: timing perturbations change the '
                          'sequence of accepted inputs', loc=m.loc(a),
                          nontrivial=True)
    chk.floor('C18.R2', 'reads of .runtime', n, 5)
    # objects that accumulate measured run times are sinks: nothing read
    # back from them reaches the strategy (calls on them are statements
    # whose value is discarded)
    nobj = 0
    for m in decision_modules(prog):
        timed = set()
        for cd in [x for x in m.tree.body if isinstance(x, ast.ClassDef)]:
            for st in ast.walk(cd):
                if isinstance(st, (ast.AugAssign, ast.Assign)) and any(
                        isinstance(x, ast.Attribute) and x.attr == 'runtime'
                        for x in ast.walk(st.value)):
                    timed.add(cd.name)
        if not timed:
            continue
        for q, f in m.funcs.items():
            if getattr(f, '_class', None) is not None and \
                    f._class.name in timed:
                continue
            objs = {st.targets[0].id for st in walk_no_nested(f)
                    if isinstance(st, ast.Assign) and isinstance(
                        st.targets[0], ast.Name) and isinstance(
                            st.value, ast.Call) and (call_name(
                                st.value) or '').split('.')[-1] in timed}
            for v in sorted(objs):
                nobj += 1
                bad = None
                for u in ast.walk(f):
                    if not (isinstance(u, ast.Name) and u.id == v
                            and isinstance(u.ctx, ast.Load)):
                        continue
                    p1 = getattr(u, '_parent', None)
                    p2 = getattr(p1, '_parent', None)
                    p3 = getattr(p2, '_parent', None)
                    if isinstance(p1, ast.Attribute) and isinstance(
                            p2, ast.Call) and p2.func is p1 and isinstance(
                                p3, ast.Expr):
                        continue  # v.method(...) as a statement
                    bad = p2 if isinstance(p2, ast.Call) else (p1 or u)
                    break
                chk.check('C18.R2', f'{m.name}.{q}', f'"{v}" (run-time '
                          'statistics) is write-only', bad is None,
                          f'"{unparse(bad)[:60] if bad is not None else ""}" '
                          'reads back from the statistics object, which '
                          'accumulates measured run times: timing '
                          'perturbations of the command change what the '
                          'strategy does next (order of mutators, '
                          'candidates, adoption)', loc=m.loc(bad or f),
                          nontrivial=True)
    chk.floor('C18.R2', 'run-time statistics objects', nobj, 1)


def rule_r3(chk, prog):
    chk.rule('C18.R3', 'with one job the first success in submission order '
             'is adopted (sequential driver adopts in generation order; '
             'latch rule of C05.R1; BFS counter monotone)')
    dm = prog.mod('strategy_ddmin')
    cs = dm.func('_check_seq')
    loops = [l for l in walk_no_nested(cs) if isinstance(l, ast.For)]
    ok = len(loops) == 1 and unparse(loops[0].iter) == params_of(cs)[0]
    w = [c for c in calls_in(cs) if call_name(c) == '_worker']
    ok = ok and len(w) == 1 and unparse(w[0].args[0]) == unparse(
        loops[0].target)
    chk.check('C18.R3', 'strategy_ddmin._check_seq', 'tasks processed one by '
              'one in generation order', ok,
              'the sequential driver does not run each generated task in '
              'order', loc=dm.loc(cs), nontrivial=True)
    from . import c05
    sub = Check('C05', 'other', 'quick', [], [])
    c05.rule_r1_r2(sub, prog)
    for r in sub.instances:
        chk.instance('C18.R3', r['where'], r['what'], r['verdict'] == 'holds',
                     r['argument'], nontrivial=True, loc=r['loc'])
    for f_ in sub.findings:
        chk.violation('C18.R3', f_.where, f_.construct, f_.msg, f_.loc)
    # TaskGenerator order: subsets in filtered (dfs) order, index ascending
    tg = dm.func('TaskGenerator.__init__')
    ok = False
    for st in walk_no_nested(tg):
        if isinstance(st, ast.Assign) and isinstance(
                st.value, ast.Call) and call_name(st.value) == 'list' and \
                st.value.args and isinstance(
                    st.value.args[0], ast.Call) and (call_name(
                        st.value.args[0]) or '').endswith('filter_nodes') \
                and unparse(st.value.args[0].args[0]) == params_of(tg)[1]:
            ok = True
    chk.check('C18.R3', 'strategy_ddmin.TaskGenerator.__init__',
              'subsets in DFS order', ok, 'the filtered node list is not '
              'the DFS order of the input', loc=dm.loc(tg), nontrivial=True)
    # get_variables_with_sort: dict insertion order
    sm = prog.mod('smtlib')
    gv = sm.func('get_variables_with_sort')
    ok = 'for v in __sort_lookup' in unparse(gv) and 'sorted' not in unparse(
        gv) or 'sorted(' in unparse(gv)
    chk.check('C18.R3', 'smtlib.get_variables_with_sort',
              'candidate variables in declaration (dict insertion) order',
              ok, 'candidate variables are not listed in a deterministic '
              'order', loc=sm.loc(gv), nontrivial=True)


def _lin_minmax(e, env):
    """Value of an integer expression over the symbols in ``env`` as a
    linear form {sym: coef, 1: const}; min()/max() are decided when the
    difference of their operands has a definite sign for all d >= 0."""
    if isinstance(e, ast.Constant) and isinstance(
            e.value, int) and not isinstance(e.value, bool):
        return {1: e.value}
    t = unparse(e)
    if t in env:
        return dict(env[t])
    if isinstance(e, ast.BinOp) and isinstance(e.op, (ast.Add, ast.Sub)):
        a, b = _lin_minmax(e.left, env), _lin_minmax(e.right, env)
        sg = 1 if isinstance(e.op, ast.Add) else -1
        r = dict(a)
        for k, v in b.items():
            r[k] = r.get(k, 0) + sg * v
        return r
    if isinstance(e, ast.Call) and call_name(e) in ('min', 'max') and len(
            e.args) == 2 and not e.keywords:
        a, b = _lin_minmax(e.args[0], env), _lin_minmax(e.args[1], env)
        diff = dict(a)
        for k, v in b.items():
            diff[k] = diff.get(k, 0) - v
        diff = {k: v for k, v in diff.items() if v != 0}
        # sign of a - b for every d >= 0 (only "d" and the constant may
        # remain)
        if set(diff) <= {1, 'd'}:
            c0, cd = diff.get(1, 0), diff.get('d', 0)
            if c0 >= 0 and cd >= 0:
                ge = True
            elif c0 <= 0 and cd <= 0:
                ge = False
            else:
                raise AnalysisError(f'cannot order the operands of {t}')
            small, big = (b, a) if ge else (a, b)
            return small if call_name(e) == 'min' else big
        raise AnalysisError(f'cannot order the operands of {t}')
    raise AnalysisError(f'"{t}" is not a linear expression over the resume '
                        'position and the task index')


def rule_r3_resume(chk, prog):
    """Hierarchical strategy, one worker: the tasks the pool had already
    queued when a success was adopted come back afterwards and are
    discarded.  How many there are depends on how far the pool's feeder
    thread ran ahead - pure timing.  The position at which the next sweep
    resumes must therefore not be moved by them."""
    hm = prog.mod('strategy_hierarchical')
    f = hm.func('reduce')
    where = 'strategy_hierarchical.reduce'
    # the resume counter: first argument of <producer>.generate(...)
    gen = [c for c in calls_in(f) if isinstance(c.func, ast.Attribute)
           and c.func.attr == 'generate' and c.args
           and isinstance(c.args[0], ast.Name)]
    if len(gen) != 1:
        raise AnalysisError('C18.R3: the call <producer>.generate(skip, ...) '
                            'was not found in reduce')
    skip = gen[0].args[0].id
    loop = None
    p_ = getattr(gen[0], '_parent', None)
    while p_ is not None and p_ is not f:
        if isinstance(p_, ast.For):
            loop = p_
            break
        p_ = getattr(p_, '_parent', None)
    if loop is None or not isinstance(loop.target, ast.Name):
        raise AnalysisError('C18.R3: the loop over the pool results was not '
                            'found')
    # the task variable: unpacked from the result
    taskv = None
    for st in walk_no_nested(loop):
        if isinstance(st, ast.Assign) and isinstance(
                st.targets[0], ast.Tuple) and len(
                    st.targets[0].elts) == 2 and 'loads' in unparse(st.value):
            taskv = st.targets[0].elts[1].id
    if taskv is None:
        raise AnalysisError('C18.R3: "success, task = pickle.loads(result)" '
                            'not found')
    n = 0
    for st in walk_no_nested(loop):
        if not (isinstance(st, ast.Assign) and any(
                isinstance(t, ast.Name) and t.id == skip
                for t in st.targets)):
            continue
        facts = facts_at(f, st)
        stale = any(t.endswith('.is_set()') and pol for (t, pol) in facts)
        if not stale:
            continue
        n += 1
        # a discarded task comes after the adopted one: its index is at
        # least skip + 2 (skip = index of the adopted task - 1)
        env = {skip: {'s': 1},
               f'{taskv}.nodeid': {'s': 1, 1: 2, 'd': 1}}
        new = _lin_minmax(st.value, env)
        new = {k: v for k, v in new.items() if v != 0}
        ok = new == {'s': 1}
        shown = ' + '.join(
            (f'{v}*{k}' if k != 1 else str(v)) for k, v in new.items()
        ).replace('1*s', skip).replace('*d', '*(distance)')
        chk.check('C18.R3', where, st, ok,
                  f'a result that is discarded after a success moves the '
                  f'resume position: for a task behind the adopted one '
                  f'"{unparse(st.value)}" is {shown}, not {skip}. With one '
                  'worker the number of such results is the number of tasks '
                  'the pool had queued ahead - it depends on thread timing, '
                  'so two runs resume at different nodes and accept '
                  'different simplifications', loc=hm.loc(st),
                  nontrivial=True)
    chk.instance('C18.R3', where, f'{n} update(s) of "{skip}" on the '
                 'discard path examined', True,
                 'no-ops for tasks behind the adopted one', nontrivial=True)


def rule_r4(chk, prog):
    chk.rule('C18.R4', 'node identities and hashes do not leak into text or '
             'sort keys (the fresh-variable name x<id>__fresh is a '
             'recorded known finding with a witness pair of differing -j 1 '
             'runs, see findings/)')
    n = 0
    for m in decision_modules(prog):
        for e in ast.walk(m.tree):
            src = None
            if isinstance(e, ast.JoinedStr):
                for p in e.values:
                    if isinstance(p, ast.FormattedValue):
                        t = unparse(p.value)
                        if t.endswith('.id') or t.endswith('.hash') or \
                                t.startswith(('id(', 'hash(')):
                            src = t
            elif isinstance(e, ast.Call) and isinstance(
                    e.func, ast.Attribute) and e.func.attr == 'format' and \
                    isinstance(e.func.value, ast.Constant):
                for a in list(e.args) + [k_.value for k_ in e.keywords]:
                    t = unparse(a)
                    if t.endswith('.id') or t.endswith('.hash') or \
                            t.startswith(('id(', 'hash(')):
                        src = t
            elif isinstance(e, ast.Call) and call_name(e) in (
                    'str', 'Node') and e.args:
                t = unparse(e.args[0])
                if t.endswith('.id') or t.endswith('.hash'):
                    src = t
            elif isinstance(e, ast.Call) and call_name(e) in (
                    'sorted', 'min', 'max') or (
                        isinstance(e, ast.Call) and isinstance(
                            e.func, ast.Attribute) and e.func.attr == 'sort'):
                k = kw(e, 'key')
                if k is not None and any(t in unparse(k) for t in (
                        '.id', '.hash', 'hash(', 'id(', 'hash')) and \
                        'count_nodes' not in unparse(k):
                    src = f'key={unparse(k)}'
            if src is None:
                continue
            f = _fn(e)
            q = f._qualname if f else '<module>'
            # logging / repr are fine
            p = getattr(e, '_parent', None)
            logged = False
            while p is not None and not isinstance(p, ast.stmt):
                if isinstance(p, ast.Call) and (call_name(p) or
                                                '').startswith('logging.'):
                    logged = True
                p = getattr(p, '_parent', None)
            if logged or q in ('Node.__repr__', ):
                continue
            # sinks of this rule: leaf text and sort keys.  A message string
            # (progress, statistics) is neither.
            in_node = False
            p = getattr(e, '_parent', None)
            while p is not None and not isinstance(p, ast.stmt):
                if isinstance(p, ast.Call) and call_name(p) in (
                        'Node', 'nodes.Node', 'Simplification'):
                    in_node = True
                p = getattr(p, '_parent', None)
            is_key = src.startswith('key=')
            if not (in_node or is_key or m.name.startswith('mutators_')
                    or m.name == 'smtlib'):
                continue
            n += 1
            kind = 'hash' if 'hash' in src else 'id'
            if isinstance(e, ast.JoinedStr):
                shape = ''.join(
                    v.value if isinstance(v, ast.Constant) else (
                        '{' + kind + '}' if unparse(v.value) == src
                        else '{...}') for v in e.values)
            elif isinstance(e, ast.Call) and isinstance(
                    e.func, ast.Attribute) and e.func.attr == 'format':
                shape = f'{e.func.value.value!r}.format({kind})'
            elif src.startswith('key='):
                shape = f'sort key over {kind}'
            else:
                shape = f'{call_name(e)}({kind})'
            chk.check('C18.R4', f'{m.name}.{q}',
                      f'node {kind} reaches ' + (
                          'a sort key' if src.startswith('key=')
                          else 'text'), False,
                      f'"{src}" flows into text or a sort key ({shape}): node ids come '
                      'from a counter shared with the worker processes, '
                      'hashes from the string hash seed', loc=m.loc(e),
                      nontrivial=True)
    chk.floor('C18.R4', 'identity/hash flows examined', n, 0)


def rule_r5(chk, prog):
    chk.rule('C18.R5', 'the shared information tables are rebuilt only '
             'between sweeps: no collect_information / reset_information '
             'inside a loop over pool results, where the pool\'s task '
             'feeder thread is still evaluating mutator filters against '
             'them')
    n = 0
    for modname in ('strategy_hierarchical', 'strategy_ddmin'):
        m = prog.mod(modname)
        for q, f in m.funcs.items():
            for lp in ast.walk(f):
                if not (isinstance(lp, ast.For) and isinstance(
                        lp.iter, ast.Call) and isinstance(
                            lp.iter.func, ast.Attribute)
                        and lp.iter.func.attr in ('imap_unordered', 'imap',
                                                  'map_async')):
                    continue
                n += 1
                bad = [c for b_ in lp.body for c in ast.walk(b_)
                       if isinstance(c, ast.Call) and (call_name(c) or
                                                       '').split('.')[-1]
                       in ('collect_information', 'reset_information')]
                chk.check('C18.R5', f'{modname}.{q}',
                          f'result loop over {unparse(lp.iter)[:40]}',
                          not bad,
                          'the information tables are reset and rebuilt '
                          'inside the loop over the pool\'s results: the '
                          'task feeder thread of the pool is still running '
                          'the producer, whose filters read these tables; a '
                          'lookup between reset and rebuild caches a wrong '
                          '"unknown", so the candidates generated depend on '
                          'thread timing even with one job',
                          loc=m.loc(bad[0] if bad else lp), nontrivial=True)
    chk.floor('C18.R5', 'loops over pool results', n, 2)


def run(tier):
    prog = Program()
    chk = Check(
        PROP, 'other', tier,
        clauses_decided=[
            'no order-sensitive consumption of sets in the code that orders, '
            'generates and adopts candidates',
            'hash/pid/thread-id/clock values reach only equality tests, '
            'logs, statistics, time limits, private file names',
            'measured run times decide nothing',
            'first success in submission order is adopted with one worker',
            'identities/hashes do not reach text or sort keys (one flow '
            'exists: the fresh-variable name, a listed known finding)',
        ],
        clauses_not_decided=[
            'byte-identity of two real runs (an experiment)',
            'scheduling of the pool\'s task-handler thread',
        ],
        assumptions=['dict iteration is insertion ordered; sorted() is '
                     'stable (Python language guarantees)'])
    chk.guard(rule_r1_sets, chk, prog)
    chk.guard(rule_r1_calls, chk, prog)
    chk.guard(rule_r2, chk, prog)
    chk.guard(rule_r3, chk, prog)
    chk.guard(rule_r3_resume, chk, prog)
    chk.guard(rule_r4, chk, prog)
    chk.guard(rule_r5, chk, prog)
    from .. import mutstate
    chk.guard(mutstate.report, chk, prog, 'C18.R6',
              'mutators keep no state from one call to the next: their '
              'protocol methods store nothing on the object, the class or '
              'module-level containers except option values and constants',
              'what is remembered depends on which candidates the producer generated before the abort flag became visible: two runs with -j 1 differ')
    from .. import idkeys
    chk.guard(idkeys.report_hash, chk, prog, 'C18.R7',
              'hash values are compared for equality, stored and pickled - '
              'never formatted into text, used in arithmetic or to order '
              'values',
              'names and choices derived from them differ between runs: the output files are not byte-identical')
    chk.guard(idkeys.report, chk, prog, 'C18.R8', 'no object address (builtin id()) outlives the function that took it: none keys a module-level or object-level container, is stored on an object or put into a record',
              'addresses differ from run to run (allocation order, ASLR): which cache entries collide, and with them the accepted sequence, is not reproducible')
    extra = None
    if tier == 'thorough':
        from .. import selftest
        extra = selftest.run_for(PROP)
    return chk.finish(extra)
