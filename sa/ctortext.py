"""The tree core stores and accepts every leaf text as it is.

T1 (text-preserving constructor): ``Node(text)`` keeps ``text`` verbatim.
The reader builds every leaf through it and the writers emit ``.data``
verbatim, so any rewriting in the constructor (normalising line ends,
closing a string literal, stripping, case folding, ...) changes tokens
between reading and writing - and makes two different texts equal nodes.
Checked: every value stored in ``self.data`` by ``Node.__init__`` is the
pickled state, a tuple of children, or the argument itself, possibly through
``str()`` / ``sys.intern()`` or a helper that returns its parameter unchanged
on every path.

T2 (total constructor and reader): the functions of nodes.py / nodeio.py do
not reject a leaf for what its text looks like.  An ``assert`` (or a
``raise`` under a test) that inspects leaf text - ``X.data`` other than in
``isinstance(X.data, ..)`` / ``len(..)`` - is a lexical judgement the reader
must not make: quoted symbols and comments may contain any character
(``|a"b|``), so every such test has legal inputs on which ddSMT aborts.
"""
import ast

from .astutil import call_name, walk_no_nested
from .loader import AnalysisError, unparse

IDENTITY_CALLS = ('str', 'sys.intern', 'intern')


def _defs_in(f, name):
    out = []
    for st in ast.walk(f):
        if isinstance(st, ast.Assign):
            for t in st.targets:
                if isinstance(t, ast.Name) and t.id == name:
                    out.append(st.value)
        elif isinstance(st, ast.AugAssign) and isinstance(
                st.target, ast.Name) and st.target.id == name:
            out.append(st)
    return out


def _identity_helper(m, cls, call):
    """the FunctionDef a call resolves to inside the module / class"""
    fn = call.func
    if isinstance(fn, ast.Name) and fn.id in m.funcs:
        return m.funcs[fn.id]
    if isinstance(fn, ast.Attribute) and isinstance(
            fn.value, ast.Name) and fn.value.id in ('self', 'cls', cls):
        for q, g in m.funcs.items():
            if q.startswith(cls + '.') and (q.split('.', 1)[1] == fn.attr
                                            or q.endswith(fn.attr)):
                return g
    return None


def _preserving(e, f, m, cls, params, depth=0, seen=None):
    """None if e is (on every path) one of ``params`` unchanged, else a
    description of the rewriting."""
    seen = seen or set()
    if depth > 6:
        return f'"{unparse(e)[:40]}" (too deep to follow)'
    if isinstance(e, ast.Name):
        if e.id in params:
            return None
        if e.id in seen:
            return None
        ds = _defs_in(f, e.id)
        if not ds:
            return f'"{e.id}" is not derived from the argument'
        for d in ds:
            if isinstance(d, ast.AugAssign):
                return f'"{unparse(d)[:50]}" changes the text'
            r = _preserving(d, f, m, cls, params, depth + 1, seen | {e.id})
            if r:
                return r
        return None
    if isinstance(e, ast.Subscript) and isinstance(
            e.value, ast.Name) and e.value.id in params and isinstance(
                e.slice, ast.Constant) and isinstance(e.slice.value, int):
        return None  # args[0]
    if isinstance(e, ast.IfExp):
        return _preserving(e.body, f, m, cls, params, depth + 1, seen) or \
            _preserving(e.orelse, f, m, cls, params, depth + 1, seen)
    if isinstance(e, ast.Call):
        nm = call_name(e) or ''
        if nm in IDENTITY_CALLS and len(e.args) == 1 and not e.keywords:
            return _preserving(e.args[0], f, m, cls, params, depth + 1, seen)
        h = _identity_helper(m, cls, e)
        if h is not None and e.args:
            hp = [a.arg for a in h.args.args if a.arg not in ('self', 'cls')]
            if not hp:
                return f'"{unparse(e)[:40]}" takes no text'
            rets = [r for r in walk_no_nested(h) if isinstance(r, ast.Return)]
            if not rets:
                return f'{h.name}() returns nothing'
            for r in rets:
                if r.value is None:
                    return f'{h.name}() returns None on one path'
                rr = _preserving(r.value, h, m, cls, {hp[0]}, depth + 1,
                                 set())
                if rr:
                    return f'{h.name}(): {rr}'
            return _preserving(e.args[0], f, m, cls, params, depth + 1, seen)
        return f'"{unparse(e)[:50]}" rewrites the text'
    return f'"{unparse(e)[:50]}" is not the argument itself'


def ctor_findings(prog):
    m = prog.mod('nodes')
    try:
        f = m.func('Node.__init__')
    except AnalysisError:
        raise
    params = {a.arg for a in f.args.args if a.arg != 'self'}
    if f.args.vararg:
        params.add(f.args.vararg.arg)
    params |= {a.arg for a in f.args.kwonlyargs}
    out = []
    n = 0
    for st in ast.walk(f):
        if not isinstance(st, ast.Assign):
            continue
        for t in st.targets:
            if isinstance(t, ast.Attribute) and isinstance(
                    t.value, ast.Name) and t.value.id == 'self' and \
                    t.attr == 'data':
                n += 1
                v = st.value
                # children: tuple(..) / a tuple display
                if isinstance(v, ast.Tuple) or (isinstance(v, ast.Call) and (
                        call_name(v) or '') == 'tuple'):
                    continue
                r = _preserving(v, f, m, 'Node', params)
                if r:
                    out.append((m, f, st, r))
    return out, n


def _text_reads(test):
    """sub-expressions of a test that inspect leaf text"""
    for n in ast.walk(test):
        for c in ast.iter_child_nodes(n):
            c._ct_parent = n
    out = []
    for x in ast.walk(test):
        if isinstance(x, ast.Attribute) and x.attr == 'data' and isinstance(
                x.ctx, ast.Load):
            p = getattr(x, '_ct_parent', None)
            if isinstance(p, ast.Call) and isinstance(
                    p.func, ast.Name) and p.func.id in ('isinstance', 'len',
                                                        'type') and \
                    p.args and p.args[0] is x:
                continue
            if isinstance(p, ast.Compare) and all(
                    isinstance(o, (ast.Is, ast.IsNot)) for o in p.ops):
                continue
            out.append(x)
    return out


def assert_findings(prog):
    out = []
    n = 0
    for mn in ('nodes', 'nodeio'):
        m = prog.mod(mn)
        for q, f in m.funcs.items():
            if '<locals>' in q:
                continue
            for st in walk_no_nested(f):
                if isinstance(st, ast.Assert):
                    n += 1
                    rd = _text_reads(st.test)
                    if rd:
                        out.append((m, q, st, f'"assert {unparse(st.test)[:70]}'
                                    '" judges a leaf by its text '
                                    f'({unparse(rd[0])})'))
                elif isinstance(st, ast.If):
                    rs = [x for x in st.body if isinstance(x, ast.Raise)]
                    if rs:
                        n += 1
                        rd = _text_reads(st.test)
                        if rd:
                            out.append((m, q, st, f'"if {unparse(st.test)[:60]}'
                                        ': raise .." judges a leaf by its '
                                        f'text ({unparse(rd[0])})'))
    return out, n


def report_ctor(chk, prog, rule_id, title, consequence):
    chk.rule(rule_id, title)
    fs, n = ctor_findings(prog)
    for (m, f, st, why) in fs:
        chk.check(rule_id, 'nodes.Node.__init__', st, False,
                  f'the leaf text is not stored as given: {why} -- '
                  + consequence, loc=m.loc(st), nontrivial=True)
    chk.instance(rule_id, 'nodes.Node.__init__', f'{n} stores into '
                 'self.data examined', not fs, 'state / children / the '
                 'argument itself', nontrivial=True)
    if n < 2:
        raise AnalysisError(f'{rule_id}: only {n} stores into self.data '
                            'found in Node.__init__')


def report_asserts(chk, prog, rule_id, title, consequence):
    chk.rule(rule_id, title)
    fs, n = assert_findings(prog)
    for (m, q, st, why) in fs:
        chk.check(rule_id, f'{m.name}.{q}', st, False, why + ': quoted '
                  'symbols, string literals and comments may contain any '
                  'character, so legal inputs fail the test -- '
                  + consequence, loc=m.loc(st), nontrivial=True)
    chk.instance(rule_id, 'nodes, nodeio', f'{n} assertions / guarded '
                 'raises examined: they test types and arities only', not fs,
                 'none inspects leaf text', nontrivial=True)
    if n < 8:
        raise AnalysisError(f'{rule_id}: only {n} assertions found in the '
                            'tree core (14 on the pinned tree)')
