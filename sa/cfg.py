"""E3: statement-level control-flow graph + must/may dataflow.

Hand-built for the statement kinds ddSMT uses.  Branch edges carry *guard
facts*: (expression, polarity) pairs obtained by decomposing the branch test
through ``not`` / ``and`` / ``or``.  Dominance and post-dominance are instances
of the generic must-analysis ("passed through node n" is a fact generated at
n and never killed).
"""
import ast

from .loader import AnalysisError, unparse

MUTATING_METHODS = {
    'append', 'pop', 'extend', 'clear', 'remove', 'insert', 'update', 'add',
    'discard', 'setdefault', 'popleft', 'appendleft', 'sort', 'reverse',
    'popitem'
}


class N:
    __slots__ = ('id', 'kind', 'ast', 'succ', 'pred', 'in_try')

    def __init__(self, id, kind, astnode):
        self.id = id
        self.kind = kind  # entry exit raise stmt test for with handler
        self.ast = astnode
        self.succ = []  # list of E
        self.pred = []
        self.in_try = None

    def __repr__(self):
        ln = getattr(self.ast, 'lineno', '-')
        return f'<N{self.id} {self.kind} L{ln}>'

    @property
    def lineno(self):
        return getattr(self.ast, 'lineno', 0)


class E:
    __slots__ = ('src', 'dst', 'kind', 'facts')

    def __init__(self, src, dst, kind='normal', facts=()):
        self.src = src
        self.dst = dst
        self.kind = kind  # normal true false iter loopexit exc
        self.facts = tuple(facts)  # ((expr_ast, polarity), ...)

    def __repr__(self):
        return f'<E {self.src}->{self.dst} {self.kind}>'


_NEG = {ast.NotEq: ast.Eq, ast.NotIn: ast.In, ast.IsNot: ast.Is}


def norm_atom(expr, pol):
    """Normalise a single atom: ``a != b``,T -> ``a == b``,F etc."""
    if isinstance(expr, ast.Compare) and len(expr.ops) == 1:
        op = expr.ops[0]
        if type(op) in _NEG:
            new = ast.Compare(left=expr.left,
                              ops=[_NEG[type(op)]()],
                              comparators=expr.comparators)
            ast.copy_location(new, expr)
            return new, (not pol)
    return expr, pol


def decompose(test, pol):
    """Guard facts implied by ``bool(test) == pol``."""
    res = []

    def rec(e, p, top):
        if isinstance(e, ast.UnaryOp) and isinstance(e.op, ast.Not):
            rec(e.operand, not p, False)
            return
        if isinstance(e, ast.BoolOp):
            if isinstance(e.op, ast.And) and p:
                for v in e.values:
                    rec(v, True, False)
                return
            if isinstance(e.op, ast.Or) and not p:
                for v in e.values:
                    rec(v, False, False)
                return
        # bool(x) is x as far as truth goes
        if isinstance(e, ast.Call) and isinstance(
                e.func, ast.Name) and e.func.id == 'bool' and len(
                    e.args) == 1 and not e.keywords:
            rec(e.args[0], p, False)
            return
        # a conditional expression with a constant arm is a conjunction /
        # disjunction: (False if C else V) == (not C and V), ...
        if isinstance(e, ast.IfExp):
            def cst(x):
                return x.value if isinstance(x, ast.Constant) and isinstance(
                    x.value, bool) else None
            b, o = cst(e.body), cst(e.orelse)
            eq = None
            if b is False:
                eq = ast.BoolOp(op=ast.And(), values=[
                    ast.UnaryOp(op=ast.Not(), operand=e.test), e.orelse])
            elif b is True:
                eq = ast.BoolOp(op=ast.Or(), values=[e.test, e.orelse])
            elif o is False:
                eq = ast.BoolOp(op=ast.And(), values=[e.test, e.body])
            elif o is True:
                eq = ast.BoolOp(op=ast.Or(), values=[
                    ast.UnaryOp(op=ast.Not(), operand=e.test), e.body])
            if eq is not None:
                ast.copy_location(eq, e)
                ast.fix_missing_locations(eq)
                rec(eq, p, False)
                return
        if isinstance(e, ast.Compare) and len(e.ops) > 1 and p:
            # a < b < c  => each link holds
            left = e.left
            for op, right in zip(e.ops, e.comparators):
                c = ast.Compare(left=left, ops=[op], comparators=[right])
                ast.copy_location(c, e)
                res.append(norm_atom(c, True))
                left = right
            return
        res.append(norm_atom(e, p))

    rec(test, pol, True)
    return res


class _DropWalrus(ast.NodeTransformer):

    def visit_NamedExpr(self, n):
        return ast.Name(id=n.target.id, ctx=ast.Load()) if isinstance(
            n.target, ast.Name) else n


def fact_key(expr, pol):
    # a fact about ``(v := E)`` is, once it holds, a fact about ``v``
    if any(isinstance(x, ast.NamedExpr) for x in ast.walk(expr)):
        import copy
        expr = _DropWalrus().visit(copy.deepcopy(expr))
    return (unparse(expr), pol)


def names_in(expr):
    return {n.id for n in ast.walk(expr) if isinstance(n, ast.Name)}


def root_name(expr):
    """Root Name of an attribute/subscript chain, or None."""
    e = expr
    while isinstance(e, (ast.Attribute, ast.Subscript, ast.Starred)):
        e = e.value
    if isinstance(e, ast.Name):
        return e.id
    return None


def target_names(t):
    """Names (re)bound by assignment target ``t`` and roots mutated by it."""
    bound, mutated = set(), set()
    if isinstance(t, ast.Name):
        bound.add(t.id)
    elif isinstance(t, (ast.Tuple, ast.List)):
        for x in t.elts:
            b, m = target_names(x)
            bound |= b
            mutated |= m
    elif isinstance(t, ast.Starred):
        return target_names(t.value)
    elif isinstance(t, (ast.Attribute, ast.Subscript)):
        r = root_name(t)
        if r:
            mutated.add(r)
    return bound, mutated


def stmt_effects(node):
    """(bound names, mutated roots) of a CFG node's own evaluation."""
    a = node.ast
    bound, mutated = set(), set()
    exprs = []
    if node.kind == 'stmt':
        if isinstance(a, ast.Assign):
            for t in a.targets:
                b, m = target_names(t)
                bound |= b
                mutated |= m
            exprs.append(a.value)
        elif isinstance(a, ast.AugAssign):
            b, m = target_names(a.target)
            bound |= b
            mutated |= m
            exprs.append(a.value)
        elif isinstance(a, ast.AnnAssign):
            b, m = target_names(a.target)
            bound |= b
            mutated |= m
            if a.value is not None:
                exprs.append(a.value)
        elif isinstance(a, ast.Delete):
            for t in a.targets:
                b, m = target_names(t)
                bound |= b
                mutated |= m
        elif isinstance(a, (ast.Import, ast.ImportFrom)):
            for al in a.names:
                bound.add((al.asname or al.name).split('.')[0])
        elif isinstance(a, (ast.FunctionDef, ast.ClassDef)):
            bound.add(a.name)
        elif isinstance(a, ast.Expr):
            exprs.append(a.value)
        elif isinstance(a, ast.Return):
            if a.value is not None:
                exprs.append(a.value)
        elif isinstance(a, ast.Assert):
            exprs.append(a.test)
        elif isinstance(a, ast.Raise):
            if a.exc is not None:
                exprs.append(a.exc)
    elif node.kind == 'test':
        exprs.append(a.test)
    elif node.kind == 'for':
        b, m = target_names(a.target)
        bound |= b
        mutated |= m
    elif node.kind == 'forinit':
        exprs.append(a.iter)
    elif node.kind == 'with':
        for it in a.items:
            exprs.append(it.context_expr)
            if it.optional_vars is not None:
                b, m = target_names(it.optional_vars)
                bound |= b
                mutated |= m
    elif node.kind == 'handler':
        if a.name:
            bound.add(a.name)
    for e in exprs:
        for c in ast.walk(e):
            if isinstance(c, ast.Call) and isinstance(c.func, ast.Attribute) \
                    and c.func.attr in MUTATING_METHODS:
                r = root_name(c.func.value)
                if r:
                    mutated.add(r)
            elif isinstance(c, ast.NamedExpr):
                bound.add(c.target.id)
    return bound, mutated


def node_exprs(node):
    """Expressions evaluated by the node itself (not nested statements)."""
    a = node.ast
    if node.kind == 'stmt':
        if isinstance(a, ast.Assign):
            return [a.value] + list(a.targets)
        if isinstance(a, ast.AugAssign):
            return [a.value, a.target]
        if isinstance(a, ast.AnnAssign):
            return [x for x in (a.value, a.target) if x is not None]
        if isinstance(a, ast.Expr):
            return [a.value]
        if isinstance(a, ast.Return):
            return [a.value] if a.value is not None else []
        if isinstance(a, ast.Assert):
            return [a.test] + ([a.msg] if a.msg else [])
        if isinstance(a, ast.Raise):
            return [x for x in (a.exc, a.cause) if x is not None]
        if isinstance(a, ast.Delete):
            return list(a.targets)
        return []
    if node.kind == 'test':
        return [a.test]
    if node.kind == 'forinit':
        return [a.iter]
    if node.kind == 'for':
        return [a.target]
    if node.kind == 'with':
        res = []
        for it in a.items:
            res.append(it.context_expr)
            if it.optional_vars is not None:
                res.append(it.optional_vars)
        return res
    if node.kind == 'handler':
        return [a.type] if a.type is not None else []
    return []


class CFG:

    def __init__(self, func, name=None):
        """``func``: FunctionDef / Lambda-free body owner, or a Module."""
        self.func = func
        self.name = name or getattr(func, 'name', '<module>')
        self.nodes = []
        self.entry = self._new('entry', func)
        self.exit = self._new('exit', func)  # normal return / fall off
        self.raise_exit = self._new('raise', func)  # explicit raise leaves
        self.node_of = {}  # id(ast stmt) -> N  (test node for if/while)
        self.after_of = {}  # id(ast stmt) -> list of nodes right after it
        self._loops = []  # stack of (continue_target, break_collector)
        self._handlers = []  # stack of lists of handler entry nodes
        body = func.body if not isinstance(func, ast.Lambda) else None
        if body is None:
            raise AnalysisError('CFG of a lambda is not supported')
        ends = self._seq(body, [(self.entry, 'normal', ())])
        for (n, k, f) in ends:
            self._edge(n, self.exit, k, f)

    # ------------------------------------------------------------ building
    def _new(self, kind, astnode):
        n = N(len(self.nodes), kind, astnode)
        n.in_try = list(self._handlers[-1]) if getattr(
            self, '_handlers', None) else None
        self.nodes.append(n)
        return n

    def _edge(self, src, dst, kind='normal', facts=()):
        e = E(src, dst, kind, facts)
        src.succ.append(e)
        dst.pred.append(e)
        return e

    def _connect(self, pend, dst):
        for (n, k, f) in pend:
            self._edge(n, dst, k, f)

    def _exc_edges(self, n):
        """Exceptional edges from n to the innermost enclosing handlers."""
        if self._handlers:
            for h in self._handlers[-1]:
                self._edge(n, h, 'exc')

    def _seq(self, body, pend):
        """Build statements; ``pend`` = dangling (node, kind, facts) edges.
        Returns the dangling edges after the sequence."""
        for st in body:
            pend = self._stmt(st, pend)
        return pend

    def _stmt(self, st, pend):
        if isinstance(st, ast.If):
            t = self._new('test', st)
            self.node_of[id(st)] = t
            self._connect(pend, t)
            self._exc_edges(t)
            tp = self._seq(st.body, [(t, 'true', decompose(st.test, True))])
            fp = self._seq(st.orelse,
                           [(t, 'false', decompose(st.test, False))])
            return tp + fp
        if isinstance(st, ast.While):
            t = self._new('test', st)
            self.node_of[id(st)] = t
            self._connect(pend, t)
            self._exc_edges(t)
            brk = []
            self._loops.append((t, brk))
            const_true = isinstance(st.test, ast.Constant) and bool(
                st.test.value)
            bp = self._seq(st.body, [(t, 'true', decompose(st.test, True))])
            self._loops.pop()
            self._connect(bp, t)
            out = []
            if not const_true:
                out = self._seq(st.orelse,
                                [(t, 'false', decompose(st.test, False))])
            return out + brk
        if isinstance(st, ast.For):
            init = self._new('forinit', st)
            self._connect(pend, init)
            self._exc_edges(init)
            h = self._new('for', st)
            self.node_of[id(st)] = h
            self._edge(init, h)
            brk = []
            self._loops.append((h, brk))
            bp = self._seq(st.body, [(h, 'iter', ())])
            self._loops.pop()
            self._connect(bp, h)
            out = self._seq(st.orelse, [(h, 'loopexit', ())])
            return out + brk
        if isinstance(st, ast.With):
            w = self._new('with', st)
            self.node_of[id(st)] = w
            self._connect(pend, w)
            self._exc_edges(w)
            return self._seq(st.body, [(w, 'normal', ())])
        if isinstance(st, ast.Try):
            tn = self._new('try', st)
            self.node_of[id(st)] = tn
            self._connect(pend, tn)
            hnodes = []
            for h in st.handlers:
                hn = self._new('handler', h)
                self.node_of[id(h)] = hn
                hnodes.append(hn)
            first_body_idx = len(self.nodes)
            self._handlers.append(hnodes)
            for hn in hnodes:
                self._edge(tn, hn, 'exc')
            bp = self._seq(st.body, [(tn, 'normal', ())])
            self._handlers.pop()
            # every node created in the try body may raise into the handlers
            for n in self.nodes[first_body_idx:]:
                if n.kind in ('stmt', 'test', 'for', 'forinit', 'with'):
                    already = {e.dst for e in n.succ if e.kind == 'exc'}
                    for hn in hnodes:
                        if hn not in already:
                            self._edge(n, hn, 'exc')
            bp = self._seq(st.orelse, bp)
            outs = list(bp)
            for h, hn in zip(st.handlers, hnodes):
                outs += self._seq(h.body, [(hn, 'normal', ())])
            if st.finalbody:
                outs = self._seq(st.finalbody, outs)
            return outs
        if isinstance(st, ast.Break):
            n = self._new('stmt', st)
            self.node_of[id(st)] = n
            self._connect(pend, n)
            if not self._loops:
                raise AnalysisError('break outside loop')
            self._loops[-1][1].append((n, 'normal', ()))
            return []
        if isinstance(st, ast.Continue):
            n = self._new('stmt', st)
            self.node_of[id(st)] = n
            self._connect(pend, n)
            self._edge(n, self._loops[-1][0])
            return []
        if isinstance(st, ast.Return):
            n = self._new('stmt', st)
            self.node_of[id(st)] = n
            self._connect(pend, n)
            self._exc_edges(n)
            self._edge(n, self.exit)
            return []
        if isinstance(st, ast.Raise):
            n = self._new('stmt', st)
            self.node_of[id(st)] = n
            self._connect(pend, n)
            if self._handlers:
                self._exc_edges(n)
            self._edge(n, self.raise_exit, 'exc')
            return []
        if isinstance(st, (ast.Match, ast.AsyncFor, ast.AsyncWith)) or \
                type(st).__name__ == 'TryStar':
            raise AnalysisError(
                f'statement kind {type(st).__name__} at line {st.lineno} is '
                'outside the modelled idioms')
        # simple statement
        n = self._new('stmt', st)
        self.node_of[id(st)] = n
        self._connect(pend, n)
        self._exc_edges(n)
        if isinstance(st, ast.Assert):
            self._edge(n, self.raise_exit, 'exc')
            return [(n, 'normal', decompose(st.test, True))]
        return [(n, 'normal', ())]

    # ----------------------------------------------------------- dataflow
    def must_forward(self, gen=None, edge_gen=None, kill=None,
                     follow_exc=True):
        """Forward must-analysis.  IN[n] = facts holding on *every* path from
        entry to n.  ``gen(n)`` -> iterable of facts generated by n (after
        kills); ``edge_gen(e)`` -> facts generated on edge e; ``kill(n, fact)``
        -> True if n invalidates fact.  Returns (IN, OUT) dicts keyed by N."""
        TOP = None
        IN = {n: TOP for n in self.nodes}
        OUT = {n: TOP for n in self.nodes}
        IN[self.entry] = frozenset()
        work = [self.entry]
        inwork = {self.entry}
        while work:
            n = work.pop()
            inwork.discard(n)
            cur = IN[n]
            if cur is TOP:
                continue
            out = cur
            if kill is not None:
                out = frozenset(f for f in out if not kill(n, f))
            if gen is not None:
                g = gen(n)
                if g:
                    out = out | frozenset(g)
            OUT[n] = out
            for e in n.succ:
                if e.kind == 'exc':
                    if not follow_exc:
                        continue
                    # an exception may happen before n completed: use IN
                    # minus what n kills, without n's gens
                    val = frozenset(
                        f for f in cur
                        if kill is None or not kill(n, f))
                else:
                    val = out
                    if edge_gen is not None:
                        eg = edge_gen(e)
                        if eg:
                            val = val | frozenset(eg)
                old = IN[e.dst]
                new = val if old is TOP else (old & val)
                if old is TOP or new != old:
                    IN[e.dst] = new
                    if e.dst not in inwork:
                        work.append(e.dst)
                        inwork.add(e.dst)
        return IN, OUT

    def must_backward(self, gen=None, exits=None, follow_exc=False):
        """Backward must-analysis: OUT[n] = facts generated on *every* path
        from n (exclusive) to one of ``exits`` (default: normal exit).  Nodes
        that cannot reach an exit keep TOP (None)."""
        exits = exits or [self.exit]
        TOP = None
        G = {
            n: (frozenset(gen(n)) if gen is not None else frozenset())
            for n in self.nodes
        }
        INB = {n: TOP for n in self.nodes}  # inclusive of n
        OUTB = {n: TOP for n in self.nodes}  # exclusive of n
        for x in exits:
            OUTB[x] = frozenset()
            INB[x] = G[x]
        changed = True
        while changed:
            changed = False
            for n in reversed(self.nodes):
                if n in exits:
                    continue
                acc = TOP
                for e in n.succ:
                    if e.kind == 'exc' and not follow_exc:
                        continue
                    v = INB[e.dst]
                    if v is TOP:
                        continue
                    acc = v if acc is TOP else (acc & v)
                if acc is TOP:
                    continue
                if OUTB[n] != acc:
                    OUTB[n] = acc
                    INB[n] = acc | G[n]
                    changed = True
        return INB, OUTB

    def dominators_facts(self, marks):
        """``marks``: dict N -> label.  Returns IN sets of labels of marked
        nodes that dominate each node (must have been passed)."""
        IN, OUT = self.must_forward(gen=lambda n: [marks[n]]
                                    if n in marks else ())
        return IN, OUT

    def guard_facts(self, extra_kill=None, extra_gen=None):
        """Standard guard-fact analysis: facts are (text, polarity) keys of
        branch atoms; killed when a name they mention is rebound or (unless
        the fact is an identity/isinstance test) mutated."""
        eff = {n: stmt_effects(n) for n in self.nodes}
        fact_names = {}

        def names_of(f):
            if f not in fact_names:
                try:
                    fact_names[f] = names_in(ast.parse(f[0], mode='eval'))
                except SyntaxError:
                    fact_names[f] = set()
            return fact_names[f]

        def stable(f):
            t = f[0]
            return (' is ' in t or t.startswith('isinstance(')
                    or t.startswith('hasattr('))

        def kill(n, f):
            bound, mutated = eff[n]
            nm = names_of(f)
            if bound & nm:
                return True
            if mutated & nm and not stable(f):
                return True
            if extra_kill is not None and extra_kill(n, f):
                return True
            return False

        def edge_gen(e):
            return [fact_key(x, p) for (x, p) in e.facts]

        return self.must_forward(gen=extra_gen, edge_gen=edge_gen, kill=kill)

    # ------------------------------------------------------------ queries
    def reachable(self, start, avoid=None, follow_exc=True, forward=True):
        """Set of nodes reachable from ``start`` (exclusive unless on a
        cycle) without entering nodes for which avoid(n) is true."""
        seen = set()
        stack = [start]
        while stack:
            n = stack.pop()
            edges = n.succ if forward else n.pred
            for e in edges:
                if e.kind == 'exc' and not follow_exc:
                    continue
                m = e.dst if forward else e.src
                if m in seen:
                    continue
                if avoid is not None and avoid(m):
                    continue
                seen.add(m)
                stack.append(m)
        return seen

    def stmts(self):
        return [n for n in self.nodes if n.kind not in ('entry', 'exit',
                                                         'raise')]

    def find(self, pred):
        return [n for n in self.nodes if pred(n)]

    def node_for(self, astnode):
        """CFG node whose own evaluation contains ``astnode``."""
        cur = astnode
        while cur is not None:
            if id(cur) in self.node_of:
                n = self.node_of[id(cur)]
                # for compound statements the node only evaluates the header
                return n
            cur = getattr(cur, '_parent', None)
        return None


def expr_owner_node(cfg, expr):
    """The CFG node that evaluates ``expr`` (walks up to the owning
    statement; for compound statements checks that expr is in the header)."""
    cur = expr
    prev = None
    while cur is not None and not isinstance(cur, (ast.stmt,
                                                   ast.ExceptHandler)):
        prev = cur
        cur = getattr(cur, '_parent', None)
    if cur is None:
        return None
    n = cfg.node_of.get(id(cur))
    if isinstance(cur, ast.For) and n is not None:
        # iter expression is evaluated by the forinit node (id = n.id - 1)
        if prev is cur.iter:
            return cfg.nodes[n.id - 1]
    return n


_cfg_cache = {}


def cfg_of(func):
    k = id(func)
    if k not in _cfg_cache:
        _cfg_cache[k] = (func, CFG(func))
    return _cfg_cache[k][1]


# ---------------------------------------------------------------- paths
class Path:
    __slots__ = ('nodes', 'facts', 'end', 'env', 'steps')

    def __init__(self, nodes, facts, end, env, steps=None):
        self.nodes = nodes  # list of N visited (in order, start inclusive)
        self.facts = facts  # list of (text, polarity) guard facts, in order
        self.steps = steps or []  # steps[k] = facts of edge nodes[k]->[k+1]
        self.end = end  # the node that ended the path (stop node / exit)
        self.env = env  # constant environment at the end

    def has(self, text, pol=True):
        return (text, pol) in self.facts

    def index_of(self, node):
        for i, n in enumerate(self.nodes):
            if n is node:
                return i
        return -1


def _const_assign(node):
    """(name, constant) if the node is ``name = <Constant>``."""
    a = node.ast
    if node.kind == 'stmt' and isinstance(a, ast.Assign) and len(
            a.targets) == 1 and isinstance(a.targets[0], ast.Name) and \
            isinstance(a.value, ast.Constant):
        return a.targets[0].id, a.value.value
    return None


def enumerate_paths(cfg, start, stop, follow_exc=False, max_paths=4000,
                    start_env=None, first_edges=None, correlate=False):
    """All acyclic paths from ``start`` to a node satisfying ``stop(n)`` (or
    to an exit node).  Branches whose test is a bare local flag with a known
    constant value on the path are pruned (``didrepl = True; if didrepl:``).
    ``first_edges``: restrict the edges taken out of ``start``.
    ``correlate``: two tests of the same bare local name with no binding of
    it in between have the same outcome (``flag = f(); if flag: ..; if flag:``)
    - contradictory paths are pruned."""
    res = []
    exits = (cfg.exit, cfg.raise_exit)
    TESTED = '\0tested:'
    expand = None
    if isinstance(getattr(cfg, 'func', None), (ast.FunctionDef,
                                               ast.AsyncFunctionDef)):
        from .astutil import expand_fact_texts, single_defs
        if single_defs(cfg.func):
            _memo = {}

            def expand(fs):
                k = tuple(fs)
                if k not in _memo:
                    try:
                        _memo[k] = set(expand_fact_texts(cfg.func, set(fs)))
                    except AnalysisError:
                        _memo[k] = set(fs)
                return _memo[k]

    # module-private sentinels (NAME = object()): "x is NAME" is decided by
    # the last binding of x on the path
    SENT = '\0sent:'
    sentinels = set()
    mod_ = getattr(getattr(cfg, 'func', None), '_module', None)
    if mod_ is not None:
        for gname, gvals in mod_.globals.items():
            if len(gvals) == 1 and isinstance(gvals[0], ast.Call) and \
                    isinstance(gvals[0].func, ast.Name) and \
                    gvals[0].func.id == 'object' and not gvals[0].args:
                sentinels.add(gname)

    # markers that leave the local variables (pushed, passed, returned)
    escaping = set()
    if sentinels:
        for x in ast.walk(mod_.tree):
            if isinstance(x, ast.Name) and x.id in sentinels and isinstance(
                    x.ctx, ast.Load):
                par = getattr(x, '_parent', None)
                if isinstance(par, ast.Compare):
                    continue
                if isinstance(par, ast.Assign) and par.value is x and all(
                        isinstance(t, ast.Name) for t in par.targets):
                    continue
                if isinstance(par, ast.IfExp) and x is not par.test and \
                        isinstance(getattr(par, '_parent', None),
                                   ast.Assign):
                    continue
                escaping.add(x.id)

    def feasible(edge, env):
        for (x, pol) in edge.facts:
            if isinstance(x, ast.Name) and x.id in env:
                if bool(env[x.id]) != pol:
                    return False
            if sentinels and isinstance(x, ast.Compare) and len(
                    x.ops) == 1 and isinstance(
                        x.ops[0], (ast.Is, ast.IsNot)) and isinstance(
                            x.left, ast.Name) and isinstance(
                                x.comparators[0], ast.Name) and \
                    x.comparators[0].id in sentinels and \
                    SENT + x.left.id in env:
                same = env[SENT + x.left.id] == x.comparators[0].id
                val = same if isinstance(x.ops[0], ast.Is) else not same
                if val != pol:
                    return False
        return True

    def rec(n, nodes, facts, env, onpath, steps):
        if len(res) > max_paths:
            raise AnalysisError(
                f'more than {max_paths} paths in {cfg.name}')
        ca = _const_assign(n)
        if sentinels and n.kind == 'stmt' and isinstance(
                n.ast, ast.Assign) and len(n.ast.targets) == 1 and \
                isinstance(n.ast.targets[0], ast.Name):
            env = dict(env)
            v_ = n.ast.value
            if isinstance(v_, ast.Name) and v_.id in sentinels:
                env[SENT + n.ast.targets[0].id] = v_.id
            elif isinstance(v_, (ast.Constant, ast.List, ast.Tuple, ast.Dict,
                                 ast.Set, ast.JoinedStr, ast.BinOp,
                                 ast.Compare, ast.ListComp)):
                env[SENT + n.ast.targets[0].id] = None  # a fresh value
            elif not (escaping & sentinels):
                # no marker of this module is ever stored or passed on
                env[SENT + n.ast.targets[0].id] = None
            else:
                # the marker may come out of a container / call
                env.pop(SENT + n.ast.targets[0].id, None)
        elif sentinels and n.kind == 'stmt':
            b_, _u = stmt_effects(n)
            if any(SENT + x_ in env for x_ in b_):
                env = {k: v for k, v in env.items()
                       if not (k.startswith(SENT) and k[len(SENT):] in b_)}
        if ca:
            env = dict(env)
            env[ca[0]] = ca[1]
        else:
            bound, _ = stmt_effects(n)
            if bound & set(env) or (correlate and any(
                    TESTED + b in env for b in bound)):
                env = {k: v for k, v in env.items()
                       if k not in bound and not (
                           k.startswith(TESTED) and k[len(TESTED):] in bound)}
        edges = n.succ
        if n is start and first_edges is not None:
            edges = first_edges
        for e in edges:
            if e.kind == 'exc' and not follow_exc:
                continue
            if not feasible(e, env):
                continue
            env_e = env
            if correlate:
                bad = False
                for (x, pol) in e.facts:
                    if isinstance(x, ast.Name):
                        k = TESTED + x.id
                        if k in env_e and env_e[k] != pol:
                            bad = True
                            break
                        if k not in env_e:
                            env_e = dict(env_e)
                            env_e[k] = pol
                if bad:
                    continue
            ef = [fact_key(x, p) for (x, p) in e.facts]
            if ef and expand is not None:
                # a test of a hoisted pure local yields the fact about the
                # hoisted expression too
                seen_ = set(ef)
                for fk in sorted(expand(ef) - seen_):
                    ef.append(fk)
            nf = facts + ef
            d = e.dst
            if d in exits or stop(d):
                res.append(Path(nodes + [d], nf, d, env_e, steps + [ef]))
                continue
            if d in onpath:
                continue  # inner cycle: not followed twice
            rec(d, nodes + [d], nf, env_e, onpath | {d}, steps + [ef])

    rec(start, [start], [], dict(start_env or {}), {start}, [])
    return res


def loop_body_paths(cfg, loop_ast, **kw):
    """Paths of one iteration of ``loop_ast`` (For/While): from the loop
    head into the body and back to the head, or out of the loop (break /
    return / raise).  Path.end is the head for a completed iteration."""
    head = cfg.node_of[id(loop_ast)]
    first = [e for e in head.succ if e.kind in ('true', 'iter')]
    body_nodes = set()
    for st in ast.walk(loop_ast):
        if id(st) in cfg.node_of and st is not loop_ast:
            body_nodes.add(cfg.node_of[id(st)])
    # For-loops nested inside have forinit nodes too
    for n in cfg.nodes:
        if n.kind == 'forinit' and n.ast is not loop_ast:
            for anc in _ancestors(n.ast):
                if anc is loop_ast:
                    body_nodes.add(n)
                    break

    def stop(n):
        return n is head or n not in body_nodes

    return enumerate_paths(cfg, head, stop, first_edges=first, **kw)


def _ancestors(node):
    n = getattr(node, '_parent', None)
    while n is not None:
        yield n
        n = getattr(n, '_parent', None)


def reaching_defs(cfg, params=()):
    """May-analysis: for each node, var -> frozenset of defining N (or the
    string 'param').  Only Name bindings."""
    IN = {n: None for n in cfg.nodes}
    IN[cfg.entry] = {p: frozenset(['param']) for p in params}
    work = [cfg.entry]
    eff = {n: stmt_effects(n)[0] for n in cfg.nodes}
    while work:
        n = work.pop()
        cur = IN[n]
        out = dict(cur)
        for v in eff[n]:
            out[v] = frozenset([n])
        for e in n.succ:
            src = cur if e.kind == 'exc' else out
            if e.kind == 'exc':
                # the binding may or may not have happened
                src = dict(cur)
                for v in eff[n]:
                    src[v] = src.get(v, frozenset()) | frozenset([n])
            old = IN[e.dst]
            if old is None:
                IN[e.dst] = dict(src)
                work.append(e.dst)
            else:
                changed = False
                for v, ds in src.items():
                    if v not in old:
                        old[v] = ds
                        changed = True
                    elif not ds <= old[v]:
                        old[v] = old[v] | ds
                        changed = True
                if changed:
                    work.append(e.dst)
    return IN


def expr_context_facts(node, stop=None):
    """Facts implied by the *expression context* of ``node`` inside its
    statement: preceding operands of and/or, the test of a conditional
    expression, the ``if`` clauses of enclosing comprehensions."""
    res = []
    child = node
    cur = getattr(node, '_parent', None)
    while cur is not None and not isinstance(cur, (ast.stmt,
                                                   ast.ExceptHandler)):
        if isinstance(cur, ast.BoolOp):
            idx = None
            for i, v in enumerate(cur.values):
                if v is child:
                    idx = i
            if idx:
                pol = isinstance(cur.op, ast.And)
                for v in cur.values[:idx]:
                    res.extend(decompose(v, pol))
        elif isinstance(cur, ast.IfExp):
            if child is cur.body:
                res.extend(decompose(cur.test, True))
            elif child is cur.orelse:
                res.extend(decompose(cur.test, False))
        elif isinstance(cur, (ast.ListComp, ast.GeneratorExp, ast.SetComp,
                              ast.DictComp)):
            is_elt = child is getattr(cur, 'elt', None) or child is getattr(
                cur, 'key', None) or child is getattr(cur, 'value', None)
            if is_elt:
                for g in cur.generators:
                    for c in g.ifs:
                        res.extend(decompose(c, True))
        elif isinstance(cur, ast.comprehension):
            # a later if-clause / nested iter sees earlier if-clauses
            if child in cur.ifs:
                for c in cur.ifs[:cur.ifs.index(child)]:
                    res.extend(decompose(c, True))
        elif isinstance(cur, ast.Lambda):
            break
        child = cur
        cur = getattr(cur, '_parent', None)
    return [fact_key(x, p) for (x, p) in res]


def facts_at(func, node):
    """Must-facts holding when expression ``node`` of ``func`` is evaluated:
    CFG guard facts of the owning statement + expression context."""
    cfg = cfg_of(func)
    key = ('gf', id(func))
    if key not in _cfg_cache:
        _cfg_cache[key] = (func, cfg.guard_facts())
    IN, OUT = _cfg_cache[key][1]
    n = expr_owner_node(cfg, node)
    base = IN.get(n) if n is not None else None
    res = set(base or ())
    res.update(expr_context_facts(node))
    # a test hoisted into a single-definition local (``leaf = x.is_leaf()``;
    # ``if leaf:``) yields the fact about the hoisted expression as well
    if res and isinstance(func, (ast.FunctionDef, ast.AsyncFunctionDef)):
        from .astutil import expand_fact_texts
        try:
            res = set(expand_fact_texts(func, res))
        except AnalysisError:
            pass
    return res


def none_def_reaches(f, st, use, name):
    """Can the definition ``name = None`` (statement st) reach the use
    without passing a rebinding of name or a branch that refutes
    "name is None"?"""
    cfg = cfg_of(f)
    d = cfg.node_of.get(id(st))
    u = expr_owner_node(cfg, use)
    if d is None or u is None:
        return True
    refute = {(f'{name} is None', False), (f'{name} is not None', True),
              (name, True)}
    seen = {d}
    work = [d]
    while work:
        n = work.pop()
        for e in n.succ:
            if e.kind == 'exc':
                continue
            if any(fact_key(x, p) in refute for (x, p) in e.facts):
                continue
            t = e.dst
            if t is u:
                return True
            if t in seen:
                continue
            seen.add(t)
            bound, _ = stmt_effects(t)
            if name in bound:
                continue
            work.append(t)
    return False
