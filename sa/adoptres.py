"""The caller continues with the input its callee has written.

``strategy_ddmin._apply_mutator(mut, exprs)`` writes every accepted
candidate to the output file while it runs and returns the last one.  The
file therefore already holds the returned input: a caller that keeps working
from its old ``exprs`` - on some path, e.g. "only if the pass reduced
something" (a pass that replaces leaves reduces nothing) - derives the next
candidates from a superseded input, and the next accepted one silently undoes
what is in the file.

Checked: for every call ``R.. = callee(.., X, ..)`` in the given function
(X a plain name, the current input), the first component of the result is
bound to X itself, or every normal path from the call to the next call of
the callee, or to the end of the function, passes an assignment ``X = R``.
"""
import ast

from .cfg import cfg_of
from .loader import AnalysisError, unparse
from .mustpass import avoiding_paths


def findings(m, f, callee, argpos):
    cfg = cfg_of(f)
    out = []
    n = 0
    calls = []
    for st in ast.walk(f):
        if isinstance(st, ast.Assign) and isinstance(
                st.value, ast.Call) and isinstance(
                    st.value.func, ast.Name) and \
                st.value.func.id == callee:
            calls.append(st)
    callnodes = {cfg.node_of[id(st)] for st in calls
                 if id(st) in cfg.node_of}
    for st in calls:
        c = st.value
        if len(c.args) <= argpos or not isinstance(c.args[argpos], ast.Name):
            continue
        x = c.args[argpos].id
        n += 1
        # a failure inside the callee (it may already have written accepted
        # candidates) must not be swallowed around the call
        par = getattr(st, '_parent', None)
        child = st
        while par is not None and par is not f:
            if isinstance(par, ast.Try) and child in par.body:
                for h in par.handlers:
                    last = h.body[-1] if h.body else None
                    ends = isinstance(last, ast.Raise) or (
                        isinstance(last, ast.Expr) and isinstance(
                            last.value, ast.Call) and unparse(
                                last.value.func) in ('sys.exit', 'exit',
                                                     'os._exit'))
                    if not ends:
                        out.append((st, x, None,
                                    f'"{unparse(st)[:50]}" runs inside a '
                                    'try whose handler ("except '
                                    f'{unparse(h.type) if h.type else ""}'
                                    '") carries on: if the callee fails '
                                    'after it has written accepted '
                                    f'candidates, "{x}" still is the input '
                                    'from before the call'))
            child, par = par, getattr(par, '_parent', None)
        t = st.targets[0]
        if isinstance(t, (ast.Tuple, ast.List)) and t.elts:
            r0 = t.elts[0]
            if isinstance(r0, ast.Name) and r0.id == x:
                continue
            rname = r0.id if isinstance(r0, ast.Name) else None
            whole = None
        elif isinstance(t, ast.Name):
            rname, whole = None, t.id
        else:
            rname = whole = None

        def rebinding(nd):
            a = nd.ast
            if nd.kind != 'stmt' or not isinstance(a, ast.Assign):
                return False
            if not any(isinstance(tt, ast.Name) and tt.id == x
                       for tt in a.targets):
                return False
            v = a.value
            if rname and isinstance(v, ast.Name) and v.id == rname:
                return True
            if whole and isinstance(v, ast.Subscript) and isinstance(
                    v.value, ast.Name) and v.value.id == whole and \
                    isinstance(v.slice, ast.Constant) and v.slice.value == 0:
                return True
            return False

        start = cfg.node_of.get(id(st))
        if start is None:
            continue
        hit = avoiding_paths(cfg, start, callnodes | {cfg.exit}, rebinding)
        if hit is not None:
            out.append((st, x, rname or whole,
                        f'after "{unparse(st)[:60]}" the input it returns is '
                        f'not bound to "{x}" on every path: '
                        + ('the next call of ' + callee if hit is not cfg.exit
                           else 'the end of the function')
                        + f' is reached with the old "{x}"'))
    return out, n


def report(chk, prog, rule_id, title, consequence,
           sites=(('strategy_ddmin', 'reduce', '_apply_mutator', 1), )):
    chk.rule(rule_id, title)
    total = 0
    for (mn, fn, callee, pos) in sites:
        m = prog.mod(mn)
        f = m.func(fn)
        fs, n = findings(m, f, callee, pos)
        total += n
        for (st, x, r, text) in fs:
            chk.check(rule_id, f'{mn}.{fn}', st, False, text + ' -- '
                      + consequence, loc=m.loc(st), nontrivial=True)
        chk.instance(rule_id, f'{mn}.{fn}', f'{n} calls of {callee} '
                     'examined', not fs, 'the result replaces the input',
                     nontrivial=True)
    if total < 2:
        raise AnalysisError(f'{rule_id}: only {total} calls found (2 on the '
                            'pinned tree)')
