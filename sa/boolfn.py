"""Extraction of loop-free Boolean-valued functions as decision structures
over *atoms*, and their evaluation on atom valuations.

This is not an interpreter for Python: it handles ``if``/``return``/
assignment of names, ``not``/``and``/``or``/conditional expressions and
constants, and hands every other expression to an *atomizer* supplied by the
rule, which either names it as an atom (key, polarity) or rejects it.  Any
other statement kind raises AnalysisError (fail closed).
"""
import ast
import itertools

from .astutil import subst, docstring_free
from .loader import AnalysisError, unparse


def lift_value_choice(e):
    """``(a or b) OP c`` chooses the compared *value* by the truth of ``a``:
    rewrite comparisons over or/and/conditional operands into a conditional
    expression over plain comparisons, so that the atoms stay comparisons
    between parameters."""
    if not (isinstance(e, ast.Compare) and len(e.ops) == 1):
        return e
    for side in ('left', 'right'):
        x = e.left if side == 'left' else e.comparators[0]

        def with_(v):
            if side == 'left':
                return ast.Compare(left=v, ops=e.ops,
                                   comparators=e.comparators)
            return ast.Compare(left=e.left, ops=e.ops, comparators=[v])

        if isinstance(x, ast.BoolOp) and len(x.values) == 2:
            a, b = x.values
            if isinstance(x.op, ast.Or):
                return ast.IfExp(test=a, body=lift_value_choice(with_(a)),
                                 orelse=lift_value_choice(with_(b)))
            return ast.IfExp(test=a, body=lift_value_choice(with_(b)),
                             orelse=lift_value_choice(with_(a)))
        if isinstance(x, ast.IfExp):
            return ast.IfExp(test=x.test,
                             body=lift_value_choice(with_(x.body)),
                             orelse=lift_value_choice(with_(x.orelse)))
    return e


class _Return(Exception):

    def __init__(self, value):
        self.value = value


class BoolFn:

    def __init__(self, func, atomizer, ignore_expr=None):
        """atomizer(expr) -> (key, polarity) for an atom expression; raise
        AnalysisError for an expression it cannot classify.
        ignore_expr(expr_stmt_value) -> True for expression statements that
        have no influence (logging)."""
        self.func = func
        self.atomizer = atomizer
        self.ignore_expr = ignore_expr or (lambda e: False)
        self.atom_keys = []
        self._seen = set()
        self.returns_none_possible = False
        self._collect()

    # ---------------------------------------------------------- discovery
    def _note(self, key):
        if key not in self._seen:
            self._seen.add(key)
            self.atom_keys.append(key)

    def _collect(self):
        """Enumerate all syntactic paths (fork at every ``if``) and atomize
        every leaf expression met with the path's own environment."""
        self._paths = 0
        self._collect_seq(docstring_free(self.func.body), 0, {}, [])

    def _collect_seq(self, body, i, env, cont):
        """cont: list of (body, index) continuations."""
        while True:
            if i >= len(body):
                if not cont:
                    self._paths += 1
                    self.returns_none_possible = True
                    return
                (body, i), cont = cont[-1], cont[:-1]
                continue
            st = body[i]
            i += 1
            if isinstance(st, ast.If):
                self._collect_expr(subst(st.test, env))
                ncont = cont + [(body, i)]
                self._collect_seq(st.body, 0, dict(env), ncont)
                self._collect_seq(st.orelse, 0, dict(env), ncont)
                return
            elif isinstance(st, ast.Return):
                if st.value is not None:
                    self._collect_expr(subst(st.value, env))
                self._paths += 1
                if self._paths > 20000:
                    raise AnalysisError('too many paths in Boolean function')
                return
            elif isinstance(st, ast.Assign):
                if len(st.targets) != 1 or not isinstance(
                        st.targets[0], ast.Name):
                    raise AnalysisError(
                        f'assignment {unparse(st)} outside the modelled '
                        'idioms of a Boolean function')
                env[st.targets[0].id] = subst(st.value, env)
            elif isinstance(st, (ast.Pass, ast.Global)):
                pass
            elif isinstance(st, ast.Expr):
                if not self.ignore_expr(st.value):
                    raise AnalysisError(
                        f'expression statement {unparse(st)} in Boolean '
                        'function is not recognised as effect-free')
            else:
                raise AnalysisError(
                    f'statement {type(st).__name__} at line {st.lineno} '
                    'outside the modelled idioms of a Boolean function')

    def _collect_expr(self, e):
        if isinstance(e, ast.Constant):
            return
        if isinstance(e, ast.UnaryOp) and isinstance(e.op, ast.Not):
            return self._collect_expr(e.operand)
        if isinstance(e, ast.BoolOp):
            for v in e.values:
                self._collect_expr(v)
            return
        if isinstance(e, ast.IfExp):
            for v in (e.test, e.body, e.orelse):
                self._collect_expr(v)
            return
        le = lift_value_choice(e)
        if le is not e:
            return self._collect_expr(le)
        try:
            key, _ = self.atomizer(e)
        except _Opaque:
            return
        self._note(key)

    # ---------------------------------------------------------- evaluation
    def eval(self, valuation):
        """Truth value of the function's result under ``valuation``."""
        try:
            self._exec(docstring_free(self.func.body), {}, valuation)
        except _Return as r:
            return r.value
        return False  # falls off the end: None

    def _exec(self, body, env, val):
        for st in body:
            if isinstance(st, ast.If):
                if self._ev(subst(st.test, env), val):
                    self._exec(st.body, env, val)
                else:
                    self._exec(st.orelse, env, val)
            elif isinstance(st, ast.Return):
                if st.value is None:
                    raise _Return(False)
                raise _Return(self._ev(subst(st.value, env), val))
            elif isinstance(st, ast.Assign):
                env[st.targets[0].id] = subst(st.value, env)

    def _ev(self, e, val):
        if isinstance(e, ast.Constant):
            return bool(e.value)
        if isinstance(e, ast.UnaryOp) and isinstance(e.op, ast.Not):
            return not self._ev(e.operand, val)
        if isinstance(e, ast.BoolOp):
            if isinstance(e.op, ast.And):
                return all(self._ev(v, val) for v in e.values)
            return any(self._ev(v, val) for v in e.values)
        if isinstance(e, ast.IfExp):
            return self._ev(e.body if self._ev(e.test, val) else e.orelse,
                            val)
        le = lift_value_choice(e)
        if le is not e:
            return self._ev(le, val)
        key, pol = self.atomizer(e)
        return val[key] == pol

    def table(self, extra_atoms=()):
        """Yield (valuation dict, result) over all valuations."""
        keys = list(self.atom_keys)
        for k in extra_atoms:
            if k not in keys:
                keys.append(k)
        for bits in itertools.product((False, True), repeat=len(keys)):
            val = dict(zip(keys, bits))
            yield val, self.eval(val)


class _Opaque(Exception):
    pass


def eval_bool_expr(expr, atomizer, val):
    """Evaluate a bare Boolean expression over atoms."""

    class F:
        body = [ast.Return(value=expr)]

    return BoolFn.__new__(BoolFn)._ev_static(expr, atomizer, val)


def _ev_static(self, e, atomizer, val):
    self.atomizer = atomizer
    return self._ev(e, val)


BoolFn._ev_static = _ev_static


def expr_atoms(expr, atomizer):
    """Atom keys of a Boolean expression."""
    keys = []

    def rec(e):
        if isinstance(e, ast.Constant):
            return
        if isinstance(e, ast.UnaryOp) and isinstance(e.op, ast.Not):
            return rec(e.operand)
        if isinstance(e, ast.BoolOp):
            for v in e.values:
                rec(v)
            return
        if isinstance(e, ast.IfExp):
            for v in (e.test, e.body, e.orelse):
                rec(v)
            return
        le = lift_value_choice(e)
        if le is not e:
            return rec(le)
        k, _ = atomizer(e)
        if k not in keys:
            keys.append(k)

    rec(expr)
    return keys
