"""E7: findings, known-findings matching, evidence files, exit codes."""
import ast
import json
import os
import re
import sys
import time

from .loader import AnalysisError, unparse

VERIF = os.path.dirname(os.path.dirname(os.path.abspath(__file__)))
KNOWN = os.path.join(VERIF, 'known_findings.json')
EVIDENCE_DIR = os.environ.get('VERIF_EVIDENCE_DIR',
                              os.path.join(VERIF, 'evidence'))


def norm_construct(node, limit=160):
    """Line-number free, whitespace-normalised text of a construct."""
    if isinstance(node, str):
        t = node
    else:
        t = unparse(node)
    t = re.sub(r'\s+', ' ', t).strip()
    if len(t) > limit:
        t = t[:limit] + '...'
    return t


class Finding:

    def __init__(self, rule, where, construct, msg, loc='', detail=None):
        self.rule = rule  # 'C01.R2'
        self.where = where  # 'strategy_ddmin._check_par'
        self.construct = norm_construct(construct)
        self.msg = msg
        self.loc = loc  # file:line (display only, not part of the key)
        self.detail = detail or {}

    @property
    def key(self):
        return f'{self.rule}:{self.where}:{self.construct}'

    def to_json(self):
        return {
            'rule': self.rule,
            'where': self.where,
            'construct': self.construct,
            'key': self.key,
            'loc': self.loc,
            'msg': self.msg,
            'detail': self.detail
        }


def load_known():
    if not os.path.isfile(KNOWN):
        return {'findings': [], 'fixed': []}
    with open(KNOWN) as f:
        return json.load(f)


class Check:
    """Collects the results of all rules of one property."""

    def __init__(self, prop, level, tier, clauses_decided, clauses_not_decided,
                 assumptions=()):
        self.prop = prop
        self.level = level
        self.tier = tier
        self.t0 = time.time()
        self.findings = []
        self.infos = []
        self.instances = []  # dicts: rule, where, what, verdict, argument
        self.nontrivial = set()
        self.obligations = 0
        self.discharged = 0
        self.rules = {}  # rule id -> description
        self.floors = []
        self.clauses_decided = list(clauses_decided)
        self.clauses_not_decided = list(clauses_not_decided)
        self.assumptions = list(assumptions)
        self.extra = {}
        self.samples = []
        self._seen_inst = {}
        self.errors = []

    def guard(self, fn, *args, **kwargs):
        """Run one rule; an analysis error of this rule does not hide the
        violations the other (independent) rules establish."""
        try:
            return fn(*args, **kwargs)
        except AnalysisError as e:
            self.errors.append(str(e))
        except RecursionError as e:
            self.errors.append(f'internal error RecursionError: {e}')
        except Exception as e:  # noqa
            import traceback
            traceback.print_exc()
            self.errors.append(f'internal error {type(e).__name__}: {e}')
        return None

    @staticmethod
    def restrict(sub, keep):
        """Keep only the instances / findings of a sub-check whose
        (where, construct) satisfies ``keep`` - an adopter takes over only
        the part of a shared rule that is a necessary condition of ITS
        property."""
        sub.instances = [r for r in sub.instances
                         if keep(r['where'], r['what'])]
        sub.findings = [f_ for f_ in sub.findings
                        if keep(f_.where, f_.construct)]
        return sub

    def adopt(self, rule, text, sub):
        """Re-state the instances and findings of a sub-check (rules shared
        with another property) under one rule id of this property."""
        self.rule(rule, text)
        for r in sub.instances:
            self.instance(rule, r['where'], r['what'],
                          r['verdict'] == 'holds', r['argument'],
                          nontrivial=True, loc=r['loc'])
        for f_ in sub.findings:
            self.violation(rule, f_.where, f_.construct,
                           f'[{f_.rule}] {f_.msg}', f_.loc)
        self.errors.extend(sub.errors)

    # --------------------------------------------------------------- rules
    def rule(self, rid, text):
        self.rules[rid] = text

    def instance(self, rule, where, what, ok, argument='', nontrivial=False,
                 loc='', sample=False):
        """Record one examined rule instance (an obligation)."""
        what_n = norm_construct(what)
        dkey = (rule, where, what_n, bool(ok))
        if dkey in self._seen_inst:
            return self._seen_inst[dkey]
        self.obligations += 1
        if ok:
            self.discharged += 1
        rec = {
            'rule': rule,
            'where': where,
            'what': norm_construct(what),
            'loc': loc,
            'verdict': 'holds' if ok else 'violated',
            'argument': argument
        }
        self._seen_inst[dkey] = rec
        self.instances.append(rec)
        if nontrivial:
            self.nontrivial.add((rule, where, rec['what']))
        if sample or len([s for s in self.samples if s['rule'] == rule]) < 2:
            self.samples.append(rec)
        return rec

    def violation(self, rule, where, construct, msg, loc='', detail=None):
        f = Finding(rule, where, construct, msg, loc, detail)
        # de-duplicate identical keys (same construct reported twice)
        if any(g.key == f.key for g in self.findings):
            return f
        self.findings.append(f)
        return f

    def check(self, rule, where, what, ok, msg, loc='', argument='',
              nontrivial=False, detail=None):
        """instance + violation in one call."""
        self.instance(rule, where, what, ok, argument or msg, nontrivial, loc)
        if not ok:
            self.violation(rule, where, what, msg, loc, detail)
        return ok

    def info(self, rule, msg, loc=''):
        d = {'rule': rule, 'msg': msg, 'loc': loc}
        if d not in self.infos:
            self.infos.append(d)

    def floor(self, rule, what, count, minimum):
        """Instance floor: fewer matches than confirmed by hand => the rule
        would pass vacuously => analysis error."""
        self.floors.append({
            'rule': rule,
            'what': what,
            'count': count,
            'min': minimum
        })
        if count < minimum:
            raise AnalysisError(
                f'{rule}: only {count} instances of "{what}" found, '
                f'{minimum} were confirmed by hand on the pinned tree; the '
                'anchor moved or the rule no longer matches')

    # -------------------------------------------------------------- finish
    def finish(self, thorough_extra=None):
        known = load_known()
        listed = {}
        for k in known.get('findings', []):
            if k.get('property') == self.prop:
                listed[k['key']] = k
        unlisted, matched = [], []
        for f in self.findings:
            if f.key in listed:
                matched.append(f)
            else:
                unlisted.append(f)
        wall = time.time() - self.t0
        os.makedirs(EVIDENCE_DIR, exist_ok=True)
        ev_path = os.path.join(EVIDENCE_DIR, f'{self.prop}.json')
        replay_path = os.path.join(EVIDENCE_DIR, f'{self.prop}.replay.json')
        by_rule = {}
        for r in self.instances:
            d = by_rule.setdefault(r['rule'], {'instances': 0, 'violated': 0})
            d['instances'] += 1
            if r['verdict'] != 'holds':
                d['violated'] += 1
        coverage = {
            'evaluations': len(self.instances),
            'distinct_nontrivial': len(self.nontrivial),
            'rule': ('one evaluation = one rule instance (a construct of '
                     '/repo the rule applies to) examined on this run; '
                     'non-trivial = the verdict needed a path, dominance, '
                     'dataflow, folding or table argument rather than a '
                     'syntactic match; distinct by (rule, function, '
                     'construct)'),
            'samples': self.samples[:40],
            'obligations': self.obligations,
            'discharged': self.discharged + 0,
            'checker_cmd': f'./check {self.prop} --tier {self.tier}',
            'trusted_base': [
                'CPython ast module (parser)',
                '/verif/sa engine (CFG, must-dataflow, folding)',
                'the reference tables embedded in the rule modules'
            ],
            'explanation':
            ('Static analysis of the current /repo working tree (no code of '
             '/repo is imported or executed). Rules: ' +
             '; '.join(f'{k}: {v}' for k, v in sorted(self.rules.items()))),
            'rules': self.rules,
            'per_rule': by_rule,
            'instance_floors': self.floors,
            'clauses_decided': self.clauses_decided,
            'clauses_not_decided': self.clauses_not_decided,
            'informational': self.infos[:60],
            'known_findings_matched': [f.to_json() for f in matched],
            'violations': [f.to_json() for f in unlisted],
        }
        if self.errors:
            coverage['analysis_errors'] = self.errors
        coverage.update(self.extra)
        if thorough_extra:
            coverage.update(thorough_extra)
        # a proof-level claim needs obligations == discharged; known findings
        # are undischarged obligations and are visible as such
        ev = {
            'property_id': self.prop,
            'tier': self.tier,
            'seed': int(os.environ.get('VERIF_SEED', '0') or 0),
            'level': self.level,
            'coverage': coverage,
            'assumptions': self.assumptions,
            'wall_s': round(wall, 3),
            'violations': len(unlisted),
        }
        with open(ev_path, 'w') as f:
            json.dump(ev, f, indent=1, sort_keys=False)
        # human-readable output
        print(f'[{self.prop}] tier={self.tier} rule-instances='
              f'{len(self.instances)} nontrivial={len(self.nontrivial)} '
              f'obligations={self.obligations} discharged={self.discharged} '
              f'wall={wall:.2f}s')
        for rid in sorted(by_rule):
            d = by_rule[rid]
            print(f'  {rid}: {d["instances"]} instances, '
                  f'{d["violated"]} violated  -- {self.rules.get(rid, "")}')
        for i in self.infos[:30]:
            print(f'  INFO {i["rule"]} {i["loc"]} {i["msg"]}')
        for f in matched:
            k = listed[f.key]
            print(f'KNOWN-FINDING: property={self.prop} {f.rule} {f.loc} '
                  f'{f.where}: {k.get("what", f.msg)}')
        if unlisted:
            with open(replay_path, 'w') as fh:
                json.dump(
                    {
                        'property': self.prop,
                        'violations': [f.to_json() for f in unlisted]
                    },
                    fh,
                    indent=1)
            for f in unlisted:
                print(f'  VIOLATED {f.rule} at {f.loc} in {f.where}: {f.msg}')
                print(f'           construct: {f.construct}')
            for e in self.errors:
                print(f'  NOTE another rule could not be evaluated: {e}')
            print(f'VIOLATION property={self.prop} replay={replay_path}')
            return 1
        if self.errors:
            for e in self.errors:
                print(f'ANALYSIS-ERROR property={self.prop}: {e}')
            return 2
        if os.path.exists(replay_path):
            os.remove(replay_path)
        if thorough_extra and thorough_extra.get('_selftest_error'):
            # a defect of the checker, not of /repo
            print(f'ANALYSIS-ERROR property={self.prop}: '
                  f'{thorough_extra["_selftest_error"]}')
            return 2
        return 0


def run_check(prop, fn, tier):
    """Run ``fn(tier) -> exit code``; map exceptions to exit 2."""
    try:
        return fn(tier)
    except AnalysisError as e:
        print(f'ANALYSIS-ERROR property={prop}: {e}')
        return 2
    except Exception as e:  # noqa
        import traceback
        traceback.print_exc()
        print(f'ANALYSIS-ERROR property={prop}: internal error '
              f'{type(e).__name__}: {e}')
        return 2
