"""Recursion over the nesting depth in the tree core (nodes.py, nodeio.py).

ddSMT's inputs nest thousands of levels deep (let chains, left-nested
sums); the tree core is therefore written with explicit stacks: parser,
renderers, traversals, equality, copying, re-duplication, substitution and
the hand-written pickle format are all iterative.  A function of these two
modules that calls itself - directly, through a helper, through a generator
(``yield from f(child)``) or through a protocol method (``a.data == b.data``
compares tuples of nodes with ``Node.__eq__``; ``copy.deepcopy``; the generic
pickler when ``__reduce__`` replaces ``__getstate__``) - needs one interpreter
frame per nesting level and raises RecursionError at about 1000 levels.

The only recursion of the pinned tree in these modules is ``Node.__str__`` /
``__repr__`` (used for flat expressions and log messages; C07.R6 watches its
use in the writers) and ``Node.__ensure_is_node`` (over the nesting of a
constructor call's literal arguments).  Everything else found here is
reported; the rules of the individual properties select the entry points
they depend on.
"""
import ast

from .astutil import call_name, walk_no_nested
from .loader import AnalysisError, unparse

MODULES = ('nodes', 'nodeio')
ALLOWED = {('nodes', 'Node.__str__'), ('nodes', 'Node.__repr__'),
           ('nodes', 'Node.__ensure_is_node')}


def _graph(prog):
    """(module, qualname) -> set of (module, qualname) for the two modules;
    also the reason of protocol edges"""
    g = {}
    why = {}
    mods = {}
    for mn in MODULES:
        try:
            mods[mn] = prog.mod(mn)
        except AnalysisError:
            continue
    node_methods = set()
    if 'nodes' in mods:
        node_methods = {q.split('.', 1)[1] for q in mods['nodes'].funcs
                        if q.startswith('Node.') and '<locals>' not in q}
    for mn, m in mods.items():
        for q, f in m.funcs.items():
            key = (mn, q)
            outs = g.setdefault(key, set())
            cls = q.split('.')[0] if '.' in q else None

            def add(tgt, reason=None):
                outs.add(tgt)
                if reason:
                    why[(key, tgt)] = reason

            # nested functions count for their parent (closures recurse by
            # calling the enclosing function's name or their own)
            for c in ast.walk(f):
                if isinstance(c, ast.Call):
                    fn = c.func
                    if isinstance(fn, ast.Name):
                        if fn.id in m.funcs:
                            add((mn, fn.id))
                        else:
                            r = None
                            try:
                                r = prog.resolve_name(m, fn.id)
                            except Exception:
                                r = None
                            if r and r[0] == 'func' and r[1].name in mods:
                                add((r[1].name, r[2]))
                        if fn.id == 'str' and c.args:
                            add(('nodes', 'Node.__str__'), 'str(..)')
                        if fn.id == 'repr' and c.args:
                            add(('nodes', 'Node.__repr__'), 'repr(..)')
                        if fn.id == 'map' and c.args and isinstance(
                                c.args[0], ast.Name) and c.args[0].id in (
                                    'str', 'repr'):
                            add(('nodes', f'Node.__{c.args[0].id}__'),
                                f'map({c.args[0].id}, ..)')
                        # a nested def called by name
                        for x in ast.walk(f):
                            if isinstance(x, ast.FunctionDef) and \
                                    x is not f and x.name == fn.id:
                                add(key, f'nested {fn.id}() calls itself'
                                    ) if any(
                                        isinstance(y, ast.Call)
                                        and isinstance(y.func, ast.Name)
                                        and y.func.id == fn.id
                                        for y in ast.walk(x)) else None
                    elif isinstance(fn, ast.Attribute):
                        if isinstance(fn.value, ast.Name) and fn.value.id in (
                                'self', 'cls') and cls is not None:
                            for cand in (f'{cls}.{fn.attr}', ):
                                if cand in m.funcs:
                                    add((mn, cand))
                        if isinstance(fn.value, ast.Name) and \
                                fn.value.id == 'Node' and \
                                f'Node.{fn.attr}' in mods.get(
                                    'nodes', m).funcs:
                            add(('nodes', f'Node.{fn.attr}'))
                        nm = call_name(c) or ''
                        if nm.startswith('nodes.') and nm.split('.', 1)[
                                1] in mods.get('nodes', m).funcs:
                            add(('nodes', nm.split('.', 1)[1]))
                        if nm in ('copy.deepcopy', 'deepcopy'):
                            add(('nodes', 'Node.__deepcopy__'),
                                'copy.deepcopy(..)')
                        if nm in ('copy.copy', ):
                            add(('nodes', 'Node.__copy__'), 'copy.copy(..)')
                elif isinstance(c, ast.JoinedStr):
                    if any(isinstance(v, ast.FormattedValue)
                           for v in c.values):
                        # f'{x}' formats with __str__ (of whatever x is; only
                        # relevant inside Node.__str__ itself)
                        if q in ('Node.__str__', 'Node.__repr__'):
                            add(('nodes', q), 'f-string of a child')
                elif isinstance(c, ast.Compare) and cls == 'Node' and any(
                        isinstance(o, (ast.Eq, ast.NotEq)) for o in c.ops):
                    ops = [c.left] + list(c.comparators)
                    datas = [o for o in ops if isinstance(o, ast.Attribute)
                             and o.attr == 'data']
                    leafy = False
                    if len(datas) >= 2:
                        from .cfg import facts_at
                        try:
                            fs_ = facts_at(f, c)
                        except AnalysisError:
                            fs_ = set()
                        for d_ in datas:
                            b_ = unparse(d_.value)
                            if (f'{b_}.is_leaf()', True) in fs_ or (
                                    f'isinstance({b_}.data, str)',
                                    True) in fs_:
                                leafy = True
                    if len(datas) >= 2 and not leafy:
                        add(('nodes', 'Node.__eq__'),
                            f'"{unparse(c)[:40]}" compares the child tuples '
                            'element by element with Node.__eq__')
    # methods that do not exist: drop dangling targets
    for k in list(g):
        g[k] = {t for t in g[k] if t in g}
    return g, why, mods


def findings(prog):
    """[(module name, qualname, function node, text)] for every function of
    nodes / nodeio on a call cycle that the pinned tree does not have, and
    for generic (recursive) pickling of Node."""
    g, why, mods = _graph(prog)
    out = []
    # cycles: Tarjan would do; the graphs are tiny - reachability per node
    reach = {}
    for k in g:
        seen = set()
        work = list(g[k])
        while work:
            n = work.pop()
            if n in seen:
                continue
            seen.add(n)
            work.extend(g.get(n, ()))
        reach[k] = seen
    for k in sorted(g):
        if k in reach[k] and k not in ALLOWED:
            # a cycle through k; allowed if every cycle through k passes
            # only through allowed functions - i.e. k itself is not on a
            # cycle once the allowed functions are removed
            seen = set()
            work = [t for t in g[k] if t not in ALLOWED]
            on_cycle = False
            while work:
                n = work.pop()
                if n == k:
                    on_cycle = True
                    break
                if n in seen:
                    continue
                seen.add(n)
                work.extend(t for t in g.get(n, ()) if t not in ALLOWED)
            if not on_cycle:
                continue
            m = mods[k[0]]
            f = m.funcs[k[1]]
            # recursion over the nesting of plain Python tuples (the literal
            # arguments of a constructor call), not over nodes: every call
            # of itself happens where the parameter is known not to be a
            # Node
            if k in g[k]:
                from .cfg import facts_at
                ps_ = [a.arg for a in f.args.args if a.arg not in ('self',
                                                                   'cls')]
                selfcalls = [c for c in ast.walk(f) if isinstance(
                    c, ast.Call) and (
                        (isinstance(c.func, ast.Name)
                         and c.func.id == f.name)
                        or (isinstance(c.func, ast.Attribute)
                            and c.func.attr == f.name))]
                try:
                    if ps_ and selfcalls and all(
                            (f'isinstance({ps_[0]}, Node)', False)
                            in facts_at(f, c) for c in selfcalls):
                        continue
                except AnalysisError:
                    pass
            via = [why[(k, t)] for t in g[k] if (k, t) in why
                   and (t == k or k in reach.get(t, ()))]
            out.append((k[0], k[1], f,
                        f'{k[0]}.{k[1]} is recursive'
                        + (f' ({via[0]})' if via else '')
                        + ': one interpreter frame per nesting level, '
                        'RecursionError for inputs nested about 1000 deep '
                        '(the tree core is iterative for that reason)'))
    # pickling
    if 'nodes' in mods:
        m = mods['nodes']
        meths = {q.split('.', 1)[1] for q in m.funcs if q.startswith('Node.')}
        generic = [x for x in ('__reduce__', '__reduce_ex__',
                               '__getnewargs__', '__getnewargs_ex__')
                   if x in meths]
        missing = [x for x in ('__getstate__', '__setstate__')
                   if x not in meths]
        if generic or missing:
            cd = m.cls('Node')
            out.append(('nodes', 'Node.<pickling>', cd,
                        'Node is pickled through '
                        + (', '.join(generic) if generic else
                           'the default protocol (no '
                           + '/'.join(missing) + ')')
                        + ': the generic pickler walks the nested child '
                        'tuples recursively - RecursionError in the main '
                        'process (Producer pickles the whole input) for '
                        'inputs nested a few hundred levels deep'))
    return out, reach


def report(chk, prog, rule_id, title, entries, consequence):
    """Shared rule body.  ``entries``: (module, qualname) entry points of
    the property (None = everything in the two modules); a finding counts
    when its function is an entry or reachable from one."""
    chk.rule(rule_id, title)
    fs, reach = findings(prog)
    g, _, mods = _graph(prog)
    n = 0
    scope = None
    if entries is not None:
        scope = set()
        for e in entries:
            if e in g:
                scope.add(e)
                scope |= reach.get(e, set())
        missing = [e for e in entries if e not in g]
        if missing and len(missing) == len(entries):
            raise AnalysisError(f'{rule_id}: none of the entry points '
                                f'{entries} exists')
    for k in sorted(g):
        if scope is not None and k not in scope:
            continue
        n += 1
    for (mn, q, node, text) in fs:
        if scope is not None and (mn, q) not in scope and not (
                q == 'Node.<pickling>' and ('nodes', 'Node.__getstate__')
                in (entries or ())):
            continue
        chk.check(rule_id, f'{mn}.{q}', 'no recursion over the nesting '
                  'depth', False, text + ' -- ' + consequence,
                  loc=mods[mn].loc(node), nontrivial=True)
    chk.instance(rule_id, 'scope', f'{n} functions of the tree core in '
                 'scope; recursion of the pinned tree (Node.__str__, '
                 '__repr__, __ensure_is_node) is exempt', True,
                 'zero-count rule (witnesses: C12_26, C02_25, C07_27, '
                 'C08_27, C04_25, C11_26)')
    if n < 1:
        raise AnalysisError(f'{rule_id}: no function in scope')
