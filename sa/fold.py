"""E4: partial evaluator ("constant folder") for the registry / pass-builder /
toggle code of ddSMT.

It folds the closed expression language these functions use: literals,
containers, f-strings, ``+``, ``in``, comparisons, ``for`` over folded
containers, ``if`` over folded or *symbolic* conditions (forking, bounded),
calls of functions of the repository (inlined, bounded depth), ``getattr`` /
``setattr`` / ``hasattr`` on modules, instances and recording namespaces.
Everything else raises AnalysisError: a rewrite of these functions in a
different idiom cannot produce a silent pass.

Symbolic values
  Sym(key)         unknown scalar (an option value, a namespace attribute)
  GuardedList      list whose elements may be present only under an atom
                   (result of the summarised ``mutators.get_mutators``)
Forking is replay based: an undecided symbolic condition raises
NeedDecision(atom); the driver re-runs with the atom decided both ways.
"""
import ast

from .astutil import params_of, docstring_free
from .loader import AnalysisError, unparse, mangle

MAX_PATHS = 2048
MAX_DEPTH = 12
MAX_STEPS = 200000


class NeedDecision(Exception):

    def __init__(self, atom):
        self.atom = atom


class Sym:

    def __init__(self, key):
        self.key = key

    def __repr__(self):
        return f'Sym{self.key}'


class ModRef:

    def __init__(self, mod):
        self.mod = mod

    def __repr__(self):
        return f'<module {self.mod.name}>'


class ExtRef:

    def __init__(self, dotted):
        self.dotted = dotted

    def __repr__(self):
        return f'<ext {self.dotted}>'


class FuncRef:

    def __init__(self, mod, qualname, node):
        self.mod = mod
        self.qualname = qualname
        self.node = node

    def __repr__(self):
        return f'<func {self.mod.name}.{self.qualname}>'


class ClassRef:

    def __init__(self, mod, name):
        self.mod = mod
        self.name = name

    def __eq__(self, o):
        return isinstance(o, ClassRef) and (o.mod.name,
                                            o.name) == (self.mod.name,
                                                        self.name)

    def __hash__(self):
        return hash((self.mod.name, self.name))

    def __repr__(self):
        return f'<class {self.mod.name}.{self.name}>'


class Inst:

    def __init__(self, cls):
        self.cls = cls
        self.attrs = {}

    def __repr__(self):
        a = f' {self.attrs}' if self.attrs else ''
        return f'<{self.cls.mod.name}.{self.cls.name}(){a}>'


class FoldKeyError(AnalysisError):
    """KeyError of the folded program"""


class FoldIndexError(AnalysisError):
    """IndexError of the folded program (ends sequence-protocol loops)"""


_NoDunder = object()


class BoundMethod:

    def __init__(self, inst, func):
        self.inst = inst
        self.func = func


class Namespace:
    """Recording namespace (argparse.Namespace stand-in)."""

    def __init__(self, name, known=None):
        self.name = name
        self.attrs = dict(known or {})
        self.writes = []  # (attr, value) in order

    def __repr__(self):
        return f'<ns {self.name}>'


class OptNS:
    """Stands for options.args(): reads are symbolic."""

    def __init__(self):
        self.defaults_used = {}  # attr -> default given to getattr
        self.reads = []
        self.writes = []

    def __repr__(self):
        return '<options.args()>'


class Guarded:
    __slots__ = ('value', 'guard')

    def __init__(self, value, guard):
        self.value = value
        self.guard = guard  # atom key or None

    def __repr__(self):
        return f'{self.value!r}@{self.guard}'


class GuardedList:

    def __init__(self, items=None):
        self.items = list(items or [])  # Guarded

    def __repr__(self):
        return f'G{self.items!r}'


class _Break(Exception):
    pass


class _Continue(Exception):
    pass


class _Return(Exception):

    def __init__(self, value):
        self.value = value


class Folder:

    def __init__(self, prog, summaries=None, ignore_calls=None):
        self.prog = prog
        self.decisions = {}
        self.optns = OptNS()
        self.steps = 0
        # (module name, qualname) -> python callable(folder, args, kwargs)
        self.summaries = summaries or {}
        self.ignore_calls = ignore_calls or (lambda dotted: False)
        # values of module-level globals: evaluated once per folder, so that
        # module-level containers keep what functions store into them
        self.gstate = {}

    # ------------------------------------------------------------ driver
    def paths(self, fn):
        """Run ``fn(folder)`` under every decision vector it asks for.
        Yields (decisions, result, folder)."""
        todo = [{}]
        done = 0
        while todo:
            dec = todo.pop()
            f = Folder(self.prog, self.summaries, self.ignore_calls)
            f.decisions = dict(dec)
            try:
                res = fn(f)
            except NeedDecision as nd:
                for b in (True, False):
                    d2 = dict(dec)
                    d2[nd.atom] = b
                    todo.append(d2)
                continue
            done += 1
            if done > MAX_PATHS:
                raise AnalysisError(
                    f'more than {MAX_PATHS} symbolic paths while folding')
            yield dec, res, f

    # ----------------------------------------------------------- truth
    def truth(self, v, node=None):
        if isinstance(v, Sym):
            if v.key in self.decisions:
                return self.decisions[v.key]
            raise NeedDecision(v.key)
        if isinstance(v, GuardedList):
            for g in v.items:
                if g.guard is None:
                    return True
                if g.guard in self.decisions:
                    if self.decisions[g.guard]:
                        return True
                    continue
                raise NeedDecision(g.guard)
            return False
        if isinstance(v, (ModRef, FuncRef, ClassRef, Inst, Namespace, OptNS,
                          BoundMethod, ExtRef)):
            return True
        return bool(v)

    def concretise(self, gl):
        """Elements of a guarded list present under the current decisions
        (forks on undecided guards)."""
        out = []
        for g in gl.items:
            if g.guard is None:
                out.append(g)
            elif g.guard in self.decisions:
                if self.decisions[g.guard]:
                    out.append(g)
            else:
                raise NeedDecision(g.guard)
        return out

    # ------------------------------------------------------------ calls
    def call_function(self, fref, args, kwargs, depth=0):
        if depth > MAX_DEPTH:
            raise AnalysisError('folding: inlining depth exceeded')
        key = (fref.mod.name, fref.qualname)
        if key in self.summaries:
            return self.summaries[key](self, args, kwargs)
        f = fref.node
        a = f.args
        names = [x.arg for x in a.posonlyargs + a.args]
        konly = [x.arg for x in a.kwonlyargs]
        posonly = {x.arg for x in a.posonlyargs}
        env = {}
        defaults = a.defaults
        for i, d in enumerate(defaults):
            pname = names[len(names) - len(defaults) + i]
            env[pname] = self.expr(d, {}, fref.mod, depth)
        for x, d in zip(a.kwonlyargs, a.kw_defaults):
            if d is not None:
                env[x.arg] = self.expr(d, {}, fref.mod, depth)
        if len(args) > len(names):
            if not a.vararg:
                raise AnalysisError(
                    f'folding: too many arguments for {fref!r}')
            env[a.vararg.arg] = tuple(args[len(names):])
        elif a.vararg:
            env[a.vararg.arg] = ()
        for n, v in zip(names, args):
            env[n] = v
        extra = {}
        for k, v in kwargs.items():
            if (k not in names and k not in konly) or k in posonly:
                if a.kwarg:
                    extra[k] = v
                    continue
                raise AnalysisError(f'folding: unknown keyword {k}')
            env[k] = v
        if a.kwarg:
            env[a.kwarg.arg] = extra
        for n in names + konly:
            if n not in env:
                raise AnalysisError(
                    f'folding: missing argument {n} for {fref!r}')
        try:
            self.block(docstring_free(f.body), env, fref.mod, depth)
        except _Return as r:
            return r.value
        return None

    # -------------------------------------------------------- statements
    def block(self, body, env, mod, depth):
        for st in body:
            self.stmt(st, env, mod, depth)

    def stmt(self, st, env, mod, depth):
        self.steps += 1
        if self.steps > MAX_STEPS:
            raise AnalysisError('folding: step bound exceeded')
        if isinstance(st, ast.Expr):
            self.expr(st.value, env, mod, depth)
        elif isinstance(st, ast.Assign):
            v = self.expr(st.value, env, mod, depth)
            for t in st.targets:
                self.assign(t, v, env, mod, depth)
        elif isinstance(st, ast.AugAssign):
            cur = self.expr(st.target, env, mod, depth)
            v = self.expr(st.value, env, mod, depth)
            self.assign(st.target, self.binop(st.op, cur, v, st), env, mod,
                        depth)
        elif isinstance(st, ast.Return):
            raise _Return(
                self.expr(st.value, env, mod, depth) if st.value else None)
        elif isinstance(st, ast.If):
            if self.truth(self.expr(st.test, env, mod, depth), st.test):
                self.block(st.body, env, mod, depth)
            else:
                self.block(st.orelse, env, mod, depth)
        elif isinstance(st, ast.For):
            it = self.iterate(self.expr(st.iter, env, mod, depth), st)
            broke = False
            for x in it:
                self.assign(st.target, x, env, mod, depth)
                try:
                    self.block(st.body, env, mod, depth)
                except _Break:
                    broke = True
                    break
                except _Continue:
                    continue
            if not broke:
                self.block(st.orelse, env, mod, depth)
        elif isinstance(st, ast.While):
            raise AnalysisError(
                f'folding: while loop at {mod.loc(st)} not modelled')
        elif isinstance(st, ast.Break):
            raise _Break()
        elif isinstance(st, ast.Continue):
            raise _Continue()
        elif isinstance(st, (ast.Pass, ast.Global, ast.Import,
                             ast.ImportFrom)):
            pass
        elif isinstance(st, ast.Assert):
            pass
        elif isinstance(st, ast.Delete):
            for t in st.targets:
                if isinstance(t, ast.Name) and t.id in env:
                    del env[t.id]
                elif isinstance(t, ast.Subscript):
                    c = self.expr(t.value, env, mod, depth)
                    k = self.expr(t.slice, env, mod, depth)
                    if isinstance(c, (dict, list)):
                        try:
                            del c[k]
                        except (KeyError, IndexError, TypeError):
                            raise AnalysisError(
                                f'folding: del of a missing element at '
                                f'{mod.loc(t)}')
                    else:
                        raise AnalysisError(
                            f'folding: del on {c!r} at {mod.loc(t)}')
                else:
                    raise AnalysisError(
                        f'folding: del target {unparse(t)} at {mod.loc(t)}')
        elif isinstance(st, ast.Try):
            # lookups that fail with KeyError / IndexError in the folded
            # program are caught by the handlers that name them
            try:
                try:
                    self.block(st.body, env, mod, depth)
                except (FoldKeyError, FoldIndexError) as ex:
                    want = 'KeyError' if isinstance(ex, FoldKeyError) \
                        else 'IndexError'
                    for h in st.handlers:
                        names = []
                        if h.type is None:
                            names = [want]
                        else:
                            for y in ([h.type] if not isinstance(
                                    h.type, ast.Tuple) else h.type.elts):
                                names.append(unparse(y))
                        if want in names or 'LookupError' in names or \
                                'Exception' in names or \
                                'BaseException' in names:
                            if h.name:
                                raise AnalysisError(
                                    'folding: handler binds the exception')
                            self.block(h.body, env, mod, depth)
                            break
                    else:
                        raise
                else:
                    self.block(st.orelse, env, mod, depth)
            finally:
                if st.finalbody:
                    self.block(st.finalbody, env, mod, depth)
        else:
            raise AnalysisError(
                f'folding: statement {type(st).__name__} at {mod.loc(st)} '
                'is outside the folded language')

    def assign(self, t, v, env, mod, depth):
        if isinstance(t, ast.Name):
            env[t.id] = v
        elif isinstance(t, (ast.Tuple, ast.List)):
            vals = list(self.iterate(v, t))
            if len(vals) != len(t.elts):
                raise AnalysisError(
                    f'folding: unpacking mismatch at {mod.loc(t)}')
            for x, y in zip(t.elts, vals):
                self.assign(x, y, env, mod, depth)
        elif isinstance(t, ast.Subscript):
            c = self.expr(t.value, env, mod, depth)
            k = self.expr(t.slice, env, mod, depth)
            if isinstance(c, (dict, list)):
                c[k] = v
            else:
                raise AnalysisError(
                    f'folding: subscript store on {c!r} at {mod.loc(t)}')
        elif isinstance(t, ast.Attribute):
            o = self.expr(t.value, env, mod, depth)
            self.setattr(o, t.attr, v, t, mod)
        else:
            raise AnalysisError(f'folding: target {unparse(t)}')

    def setattr(self, o, name, v, node, mod):
        if isinstance(o, Inst):
            o.attrs[name] = v
        elif isinstance(o, Namespace):
            o.attrs[name] = v
            o.writes.append((name, v))
        elif isinstance(o, OptNS):
            o.writes.append((name, v))
        else:
            raise AnalysisError(
                f'folding: attribute store on {o!r} at {mod.loc(node)}')

    def dunder(self, inst, name, args, depth=0):
        """call inst.<name>(*args) if its class defines it; else _NoDunder"""
        for cm, cn in self.mro(inst.cls):
            q = f'{cn}.{name}'
            if q in cm.funcs:
                return self.call_function(FuncRef(cm, q, cm.funcs[q]),
                                          [inst] + list(args), {}, depth + 1)
        return _NoDunder

    def iterate(self, v, node):
        if isinstance(v, Inst):
            # the sequence protocol: __getitem__(0), (1), .. until IndexError
            out = []
            i = 0
            while True:
                if i > 10000:
                    raise AnalysisError('folding: unbounded iteration')
                try:
                    r = self.dunder(v, '__getitem__', [i])
                except FoldIndexError:
                    break
                if r is _NoDunder:
                    raise AnalysisError(f'folding: cannot iterate {v!r}')
                out.append(r)
                i += 1
            return out
        if isinstance(v, (list, tuple)):
            return list(v)
        if isinstance(v, dict):
            return list(v.keys())
        if isinstance(v, str):
            return list(v)
        if isinstance(v, GuardedList):
            return [g.value for g in self.concretise(v)]
        if isinstance(v, range):
            return list(v)
        raise AnalysisError(f'folding: cannot iterate {v!r} '
                            f'(line {getattr(node, "lineno", "?")})')

    # ------------------------------------------------------- expressions
    def expr(self, e, env, mod, depth):
        self.steps += 1
        if self.steps > MAX_STEPS:
            raise AnalysisError('folding: step bound exceeded')
        if isinstance(e, ast.Constant):
            return e.value
        if isinstance(e, ast.Name):
            if e.id in env:
                return env[e.id]
            return self.global_name(mod, e.id, e)
        if isinstance(e, ast.List) and any(
                isinstance(x, ast.Starred) for x in e.elts):
            # [*a, x, *b] is a + [x] + b for lists
            acc = []
            for x in e.elts:
                if isinstance(x, ast.Starred):
                    v = self.expr(x.value, env, mod, depth)
                    if isinstance(v, tuple):
                        v = list(v)
                    if not isinstance(v, (list, GuardedList)):
                        raise AnalysisError('folding: starred element')
                else:
                    v = [self.expr(x, env, mod, depth)]
                acc = self.binop(ast.Add(), acc, v, e) if (
                    isinstance(acc, GuardedList)
                    or isinstance(v, GuardedList)) else acc + v
            return acc
        if isinstance(e, ast.List):
            return [self.expr(x, env, mod, depth) for x in self._elts(
                e.elts, env, mod, depth)]
        if isinstance(e, ast.Tuple):
            return tuple(
                self.expr(x, env, mod, depth)
                for x in self._elts(e.elts, env, mod, depth))
        if isinstance(e, ast.Set):
            return set(self.expr(x, env, mod, depth) for x in e.elts)
        if isinstance(e, ast.Dict):
            d = {}
            for k, v in zip(e.keys, e.values):
                if k is None:
                    d.update(self.expr(v, env, mod, depth))
                else:
                    d[self.expr(k, env, mod, depth)] = self.expr(
                        v, env, mod, depth)
            return d
        if isinstance(e, ast.JoinedStr):
            parts = []
            for p in e.values:
                if isinstance(p, ast.Constant):
                    parts.append(str(p.value))
                else:
                    if p.format_spec is not None or p.conversion != -1:
                        raise AnalysisError(
                            'folding: f-string format spec not modelled')
                    parts.append(self.to_str(
                        self.expr(p.value, env, mod, depth), p, mod, depth))
            return ''.join(parts)
        if isinstance(e, ast.BinOp):
            return self.binop(e.op, self.expr(e.left, env, mod, depth),
                              self.expr(e.right, env, mod, depth), e)
        if isinstance(e, ast.UnaryOp):
            v = self.expr(e.operand, env, mod, depth)
            if isinstance(e.op, ast.Not):
                return not self.truth(v, e)
            if isinstance(e.op, ast.USub) and isinstance(v, (int, float)):
                return -v
            raise AnalysisError(f'folding: unary {unparse(e)}')
        if isinstance(e, ast.BoolOp):
            last = None
            for x in e.values:
                last = self.expr(x, env, mod, depth)
                t = self.truth(last, x)
                if isinstance(e.op, ast.And) and not t:
                    return last if not isinstance(last, Sym) else False
                if isinstance(e.op, ast.Or) and t:
                    return last if not isinstance(last, Sym) else True
            if isinstance(last, Sym):
                return self.truth(last)
            return last
        if isinstance(e, ast.Compare):
            left = self.expr(e.left, env, mod, depth)
            for op, r in zip(e.ops, e.comparators):
                right = self.expr(r, env, mod, depth)
                if not self.compare(op, left, right, e):
                    return False
                left = right
            return True
        if isinstance(e, ast.IfExp):
            if self.truth(self.expr(e.test, env, mod, depth), e.test):
                return self.expr(e.body, env, mod, depth)
            return self.expr(e.orelse, env, mod, depth)
        if isinstance(e, ast.Subscript):
            c = self.expr(e.value, env, mod, depth)
            if isinstance(e.slice, ast.Slice):
                lo = self.expr(e.slice.lower, env, mod,
                               depth) if e.slice.lower else None
                hi = self.expr(e.slice.upper, env, mod,
                               depth) if e.slice.upper else None
                if isinstance(c, (list, tuple, str)):
                    return c[lo:hi]
                if isinstance(c, Inst):
                    r = self.dunder(c, '__getitem__', [slice(lo, hi)], depth)
                    if r is not _NoDunder:
                        return r
                raise AnalysisError(f'folding: slice of {c!r}')
            k = self.expr(e.slice, env, mod, depth)
            if isinstance(c, Inst):
                r = self.dunder(c, '__getitem__', [k], depth)
                if r is not _NoDunder:
                    return r
            if isinstance(c, GuardedList):
                items = self.concretise(c)
                try:
                    return items[k].value
                except (IndexError, TypeError):
                    raise AnalysisError(
                        f'folding: index {k!r} out of range at '
                        f'{mod.loc(e)}')
            if isinstance(c, (list, tuple, dict, str)):
                try:
                    return c[k]
                except IndexError:
                    raise FoldIndexError(
                        f'folding: {unparse(e)} raises IndexError at '
                        f'{mod.loc(e)} (key {k!r})')
                except KeyError:
                    raise FoldKeyError(
                        f'folding: {unparse(e)} raises KeyError at '
                        f'{mod.loc(e)} (key {k!r})')
                except TypeError as ex:
                    raise AnalysisError(
                        f'folding: {unparse(e)} raises {type(ex).__name__} '
                        f'at {mod.loc(e)} (key {k!r})')
            if isinstance(c, Sym):
                return Sym(('item', c.key,
                            k.key if isinstance(k, Sym) else repr(k)))
            raise AnalysisError(f'folding: subscript of {c!r} at '
                                f'{mod.loc(e)}')
        if isinstance(e, ast.Attribute):
            o = self.expr(e.value, env, mod, depth)
            return self.getattr(o, e.attr, e, mod)
        if isinstance(e, ast.Call):
            return self.call(e, env, mod, depth)
        if isinstance(e, (ast.ListComp, ast.GeneratorExp, ast.SetComp)):
            res = []
            self._comp(e.generators, 0, dict(env), mod, depth,
                       lambda en: res.append(self.expr(e.elt, en, mod,
                                                       depth)))
            return set(res) if isinstance(e, ast.SetComp) else res
        if isinstance(e, ast.DictComp):
            res = {}

            def add(en):
                res[self.expr(e.key, en, mod, depth)] = self.expr(
                    e.value, en, mod, depth)

            self._comp(e.generators, 0, dict(env), mod, depth, add)
            return res
        if isinstance(e, ast.Lambda):
            return ('lambda', e, dict(env), mod)
        raise AnalysisError(
            f'folding: expression {type(e).__name__} "{unparse(e)[:50]}" at '
            f'{mod.loc(e)} is outside the folded language')

    def _elts(self, elts, env, mod, depth):
        for x in elts:
            if isinstance(x, ast.Starred):
                raise AnalysisError('folding: starred element')
        return elts

    def _comp(self, gens, i, env, mod, depth, emit):
        if i == len(gens):
            emit(env)
            return
        g = gens[i]
        for x in self.iterate(self.expr(g.iter, env, mod, depth), g.iter):
            self.assign(g.target, x, env, mod, depth)
            if all(self.truth(self.expr(c, env, mod, depth), c)
                   for c in g.ifs):
                self._comp(gens, i + 1, env, mod, depth, emit)

    def binop(self, op, a, b, node):
        if isinstance(op, ast.Add):
            if isinstance(a, GuardedList) or isinstance(b, GuardedList):
                ga = a if isinstance(a, GuardedList) else GuardedList(
                    [Guarded(x, None) for x in a])
                gb = b if isinstance(b, GuardedList) else GuardedList(
                    [Guarded(x, None) for x in b])
                return GuardedList(ga.items + gb.items)
            if type(a) is type(b) and isinstance(a, (str, list, tuple, int,
                                                     float)):
                return a + b
            if isinstance(a, (int, float)) and isinstance(b, (int, float)):
                return a + b
        if isinstance(op, ast.Pow) and isinstance(a, int) and isinstance(
                b, int) and not isinstance(a, bool) and 0 <= b <= 4096:
            return a ** b
        if isinstance(op, (ast.Sub, ast.Mult, ast.FloorDiv, ast.Mod)) and \
                isinstance(a, (int, float)) and isinstance(b, (int, float)):
            import operator
            f = {
                ast.Sub: operator.sub,
                ast.Mult: operator.mul,
                ast.FloorDiv: operator.floordiv,
                ast.Mod: operator.mod
            }[type(op)]
            return f(a, b)
        raise AnalysisError(
            f'folding: operator at line {getattr(node, "lineno", "?")} on '
            f'{a!r}, {b!r}')

    def compare(self, op, a, b, node):
        if isinstance(op, (ast.Eq, ast.NotEq)) and (
                isinstance(a, Inst) or isinstance(b, Inst)):
            r = _NoDunder
            if isinstance(a, Inst):
                r = self.dunder(a, '__eq__', [b])
            if r is _NoDunder and isinstance(b, Inst):
                r = self.dunder(b, '__eq__', [a])
            if r is _NoDunder:
                r = a is b
            r = self.truth(r, node)
            return r if isinstance(op, ast.Eq) else not r
        if isinstance(op, (ast.In, ast.NotIn)) and not isinstance(
                a, Sym) and isinstance(b, (list, tuple, dict, Inst)) and (
                    isinstance(a, Inst) or isinstance(b, Inst) or any(
                        isinstance(x, Inst) for x in b)):
            # membership: identity or equality, element first
            hit = False
            for x in self.iterate(b, node):
                if x is a or self.compare(ast.Eq(), x, a, node):
                    hit = True
                    break
            return hit if isinstance(op, ast.In) else not hit
        if isinstance(op, (ast.In, ast.NotIn)):
            if isinstance(b, GuardedList):
                raise AnalysisError('folding: membership in guarded list')
            if isinstance(b, (list, tuple, dict, set, frozenset, str)):
                if isinstance(a, (Sym, Inst)):
                    raise AnalysisError('folding: symbolic membership')
                r = a in b
                return r if isinstance(op, ast.In) else not r
            if isinstance(b, Sym) and not isinstance(a, (Inst, )):
                r = self.truth(Sym(('in', a.key if isinstance(a, Sym)
                                    else repr(a), b.key)))
                return r if isinstance(op, ast.In) else not r
            raise AnalysisError(f'folding: "in" on {b!r}')
        if isinstance(a, Sym) or isinstance(b, Sym):
            s, o = (a, b) if isinstance(a, Sym) else (b, a)
            if isinstance(o, Sym):
                key = ('cmp', type(op).__name__, s.key, o.key)
            else:
                key = ('cmp', type(op).__name__, s.key, repr(o))
            if isinstance(op, ast.IsNot) or isinstance(op, ast.NotEq):
                key = ('cmp', 'Is' if isinstance(op, ast.IsNot) else 'Eq',
                       key[2], key[3])
                return not self.truth(Sym(key))
            return self.truth(Sym(key))
        if isinstance(op, ast.Eq):
            return a == b
        if isinstance(op, ast.NotEq):
            return a != b
        if isinstance(op, ast.Is):
            return a is b
        if isinstance(op, ast.IsNot):
            return a is not b
        try:
            if isinstance(op, ast.Lt):
                return a < b
            if isinstance(op, ast.LtE):
                return a <= b
            if isinstance(op, ast.Gt):
                return a > b
            if isinstance(op, ast.GtE):
                return a >= b
        except TypeError:
            pass
        raise AnalysisError(f'folding: comparison of {a!r} and {b!r}')

    def to_str(self, v, node, mod, depth):
        if isinstance(v, (str, int, float, bool)) or v is None:
            return str(v)
        if isinstance(v, Inst):
            m = v.cls.mod.funcs.get(f'{v.cls.name}.__str__')
            if m is not None:
                return self.to_str(
                    self.call_function(FuncRef(v.cls.mod, m._qualname, m),
                                       [v], {}, depth + 1), node, mod, depth)
        raise AnalysisError(f'folding: str() of {v!r} at {mod.loc(node)}')

    # --------------------------------------------------- names/attributes
    def global_name(self, mod, name, node):
        r = self.prog.resolve_name(mod, name)
        if r is None:
            raise AnalysisError(
                f'folding: unresolved name {name} at {mod.loc(node)}')
        return self.from_resolution(r, node, mod)

    def from_resolution(self, r, node, mod):
        if r[0] == 'func':
            return FuncRef(r[1], r[2], r[1].funcs[r[2]])
        if r[0] == 'class':
            return ClassRef(r[1], r[2])
        if r[0] == 'module':
            return ModRef(r[1])
        if r[0] == 'ext':
            return ExtRef(r[1])
        if r[0] == 'builtin':
            return ('builtin', r[1])
        if r[0] == 'global':
            m, name = r[1], r[2]
            vals = m.globals.get(name, [])
            if len(vals) == 1:
                gk = (m.name, name)
                if gk not in self.gstate:
                    self.gstate[gk] = self.expr(vals[0], {}, m, 0)
                return self.gstate[gk]
            raise AnalysisError(
                f'folding: module global {m.name}.{name} has {len(vals)} '
                'assignments')
        raise AnalysisError(f'folding: cannot use {r!r}')

    def getattr(self, o, name, node, mod, default=_Return):
        if isinstance(o, ModRef):
            r = self.prog.resolve_name(o.mod, name)
            if r is None:
                if default is not _Return:
                    return default
                raise AnalysisError(
                    f'folding: module {o.mod.name} has no attribute {name} '
                    f'(at {mod.loc(node)}) - AttributeError at run time')
            return self.from_resolution(r, node, mod)
        if isinstance(o, ExtRef):
            # the documented character-set constants of the string module
            if o.dotted == 'string' and name in (
                    'hexdigits', 'digits', 'octdigits', 'ascii_letters',
                    'ascii_lowercase', 'ascii_uppercase', 'punctuation',
                    'whitespace', 'printable'):
                import string as _string
                return getattr(_string, name)
            return ExtRef(f'{o.dotted}.{name}')
        if isinstance(o, tuple) and name in getattr(type(o), '_fields', ()):
            return getattr(o, name)
        if isinstance(o, Inst):
            n2 = name
            if n2 in o.attrs:
                return o.attrs[n2]
            for cm, cn in self.mro(o.cls):
                q = f'{cn}.{name}'
                if q in cm.funcs:
                    if any(isinstance(d_, ast.Name)
                           and d_.id == 'staticmethod'
                           for d_ in cm.funcs[q].decorator_list):
                        return FuncRef(cm, q, cm.funcs[q])
                    return BoundMethod(o, cm.funcs[q])
                # class attribute
                cd = cm.classes[cn]
                for st in cd.body:
                    if isinstance(st, ast.Assign):
                        for t in st.targets:
                            if isinstance(t, ast.Name) and t.id == name:
                                return self.expr(st.value, {}, cm, 0)
            if default is not _Return:
                return default
            raise AnalysisError(
                f'folding: {o!r} has no attribute {name} at {mod.loc(node)}')
        if isinstance(o, Namespace):
            if name in o.attrs:
                return o.attrs[name]
            return Sym(('ns', o.name, name))
        if isinstance(o, OptNS):
            o.reads.append(name)
            if default is not _Return:
                o.defaults_used[name] = default
            return Sym(('opt', name))
        if isinstance(o, (str, list, dict, tuple, GuardedList, set)):
            return ('method', o, name)
        if isinstance(o, Sym):
            return Sym(('attr', o.key, name))
        raise AnalysisError(
            f'folding: attribute {name} of {o!r} at {mod.loc(node)}')

    def mro(self, cls):
        """Linearised (module, class name) list through bases defined in the
        repository (depth first; no diamond inheritance in ddSMT)."""
        out = []
        seen = set()

        def rec(m, n):
            if (m.name, n) in seen or n not in m.classes:
                return
            seen.add((m.name, n))
            out.append((m, n))
            for b in m.classes[n].bases:
                r = self.prog.resolve_expr(m, b)
                if r and r[0] == 'class':
                    rec(r[1], r[2])

        rec(cls.mod, cls.name)
        return out

    def hasattr(self, o, name):
        if isinstance(o, ModRef):
            return self.prog.resolve_name(o.mod, name) is not None
        if isinstance(o, Inst):
            if name in o.attrs:
                return True
            for cm, cn in self.mro(o.cls):
                if f'{cn}.{name}' in cm.funcs:
                    return True
                for st in cm.classes[cn].body:
                    if isinstance(st, ast.Assign):
                        for t in st.targets:
                            if isinstance(t, ast.Name) and t.id == name:
                                return True
            return False
        if isinstance(o, Namespace):
            if name in o.attrs:
                return True
            return self.truth(Sym(('ns-has', o.name, name)))
        raise AnalysisError(f'folding: hasattr on {o!r}')

    # ------------------------------------------------------------- calls
    def call(self, e, env, mod, depth):
        for a in e.args:
            if isinstance(a, ast.Starred):
                raise AnalysisError(
                    f'folding: starred call argument at {mod.loc(e)}')
        f = self.expr(e.func, env, mod, depth)
        args = [self.expr(a, env, mod, depth) for a in e.args]
        kwargs = {}
        for k in e.keywords:
            if k.arg is None:
                raise AnalysisError('folding: **kwargs call')
            kwargs[k.arg] = self.expr(k.value, env, mod, depth)
        return self.apply(f, args, kwargs, e, mod, depth)

    def apply(self, f, args, kwargs, e, mod, depth):
        if isinstance(f, FuncRef):
            return self.call_function(f, args, kwargs, depth + 1)
        if isinstance(f, BoundMethod):
            fr = FuncRef(f.func._module, f.func._qualname, f.func)
            return self.call_function(fr, [f.inst] + args, kwargs, depth + 1)
        if isinstance(f, ClassRef):
            inst = Inst(f)
            init = f.mod.funcs.get(f'{f.name}.__init__')
            cd = f.mod.classes[f.name]
            if cd.bases and init is None:
                # base classes outside the folded language
                bases = [unparse(b) for b in cd.bases]
                raise AnalysisError(
                    f'folding: instantiation of {f!r} with bases {bases}')
            if init is not None:
                self.call_function(FuncRef(f.mod, init._qualname, init),
                                   [inst] + args, kwargs, depth + 1)
            elif args or kwargs:
                raise AnalysisError(
                    f'folding: {f!r}() takes no arguments at {mod.loc(e)} '
                    '(TypeError at run time)')
            return inst
        if isinstance(f, ExtRef) and f.dotted in (
                'collections.namedtuple', 'namedtuple') and len(
                    args) == 2 and isinstance(args[0], str):
            # a plain record type: modelled by the real thing
            import collections as _c
            fields = args[1]
            if isinstance(fields, str):
                fields = fields.replace(',', ' ').split()
            return ('ntclass', _c.namedtuple(args[0], list(fields)))
        if isinstance(f, tuple) and len(f) == 2 and f[0] == 'ntclass':
            return f[1](*args, **kwargs)
        if isinstance(f, ExtRef) and f.dotted == 're.compile' and args \
                and isinstance(args[0], str) and all(
                    isinstance(a, int) for a in args[1:]) and not kwargs:
            import re as _re
            try:
                return ('repattern', _re.compile(*args))
            except _re.error as ex:
                raise AnalysisError(f'folding: re.compile({args[0]!r}): {ex}')
        if isinstance(f, ExtRef) and f.dotted in (
                're.match', 're.fullmatch', 're.search') and len(
                    args) == 2 and all(isinstance(a, str) for a in args) \
                and not kwargs:
            # a regular expression applied to a concrete string: the
            # library's answer (only its being None or not is used)
            import re as _re
            return getattr(_re, f.dotted.split('.')[1])(*args) is not None \
                or None
        if isinstance(f, ExtRef):
            if f.dotted.startswith('logging.') or self.ignore_calls(
                    f.dotted):
                return None
            raise AnalysisError(
                f'folding: call of external {f.dotted} at {mod.loc(e)}')
        if isinstance(f, tuple) and f and f[0] == 'builtin':
            return self.builtin(f[1], args, kwargs, e, mod, depth)
        if isinstance(f, tuple) and f and f[0] == 'method':
            return self.method(f[1], f[2], args, kwargs, e, mod, depth)
        if isinstance(f, tuple) and f and f[0] == 'lambda':
            _, lam, lenv, lmod = f
            names = [x.arg for x in lam.args.args]
            en = dict(lenv)
            en.update(dict(zip(names, args)))
            return self.expr(lam.body, en, lmod, depth + 1)
        if isinstance(f, Sym) and not kwargs:
            # a method of an opaque value: an opaque value determined by the
            # receiver and the arguments (same call, same answer)
            return Sym(('call', f.key) + tuple(
                a.key if isinstance(a, Sym) else repr(a) for a in args))
        raise AnalysisError(
            f'folding: call of {f!r} at {mod.loc(e)} not modelled')

    def builtin(self, name, args, kwargs, e, mod, depth):
        if name == 'getattr':
            if len(args) == 3:
                return self.getattr(args[0], args[1], e, mod, default=args[2])
            return self.getattr(args[0], args[1], e, mod)
        if name == 'setattr':
            self.setattr(args[0], args[1], args[2], e, mod)
            return None
        if name == 'hasattr':
            return self.hasattr(args[0], args[1])
        if name == 'len':
            if isinstance(args[0], GuardedList):
                return len(self.concretise(args[0]))
            if isinstance(args[0], Sym):
                return Sym(('len', args[0].key))
            if isinstance(args[0], Inst):
                r = self.dunder(args[0], '__len__', [], depth)
                if r is not _NoDunder:
                    return r
            return len(args[0])
        if name == 'str':
            return self.to_str(args[0], e, mod, depth)
        if name == 'hash' and len(args) == 1 and isinstance(
                args[0], (str, int, tuple, frozenset)) and not any(
                    isinstance(x, (Inst, Sym)) for x in (
                        args[0] if isinstance(args[0], tuple) else ())):
            return ('hash', args[0])
        if name == 'list':
            if not args:
                return []
            if isinstance(args[0], GuardedList):
                return GuardedList(args[0].items)
            return list(self.iterate(args[0], e))
        if name == 'tuple':
            return tuple(self.iterate(args[0], e)) if args else ()
        if name == 'dict':
            d = dict(args[0]) if args else {}
            d.update(kwargs)
            return d
        if name == 'set':
            return set(self.iterate(args[0], e)) if args else set()
        if name == 'int' and len(args) in (1, 2) and all(
                isinstance(a, (str, int)) and not isinstance(a, bool)
                for a in args):
            try:
                return int(*args)
            except ValueError as ex:
                raise AnalysisError(f'folding: int{tuple(args)!r} raises '
                                    f'ValueError at {mod.loc(e)}')
        if name == 'map' and len(args) == 2 and not kwargs:
            # consumed by list()/all()/any()/join in the folded language:
            # the list of results, in order
            return [self.apply(args[0], [x], {}, e, mod, depth)
                    for x in self.iterate(args[1], e)]
        if name == 'sum' and len(args) in (1, 2):
            acc = args[1] if len(args) == 2 else 0
            for x in self.iterate(args[0], e):
                if isinstance(x, (Sym, Inst)) or isinstance(acc, Sym):
                    raise AnalysisError('folding: symbolic sum')
                acc = acc + x
            return acc
        if name in ('min', 'max') and args:
            vals = list(self.iterate(args[0], e)) if len(args) == 1 else \
                list(args)
            if vals and all(isinstance(v, (int, float, str)) for v in vals):
                return min(vals) if name == 'min' else max(vals)
        if name == 'frozenset':
            return frozenset(self.iterate(args[0], e)) if args else \
                frozenset()
        if name == 'sorted':
            return sorted(self.iterate(args[0], e))
        if name == 'reversed':
            return list(reversed(self.iterate(args[0], e)))
        if name == 'range':
            return range(*args)
        if name == 'enumerate':
            return list(enumerate(self.iterate(args[0], e)))
        if name == 'zip':
            return list(zip(*[self.iterate(a, e) for a in args]))
        if name == 'isinstance':
            v, t = args
            ts = t if isinstance(t, tuple) and t and isinstance(
                t[0], (tuple, ClassRef)) else (t, )
            if all(isinstance(x, ClassRef) or (isinstance(x, tuple) and x
                                               and x[0] == 'builtin')
                   for x in ts) and not isinstance(v, (Sym, GuardedList)) \
                    and (len(ts) > 1 or isinstance(ts[0], ClassRef)):
                py = {'tuple': tuple, 'list': list, 'str': str, 'dict': dict,
                      'int': int, 'bool': bool, 'float': float,
                      'bytes': bytes, 'set': set}
                for x in ts:
                    if isinstance(x, ClassRef):
                        if isinstance(v, Inst) and any(
                                (cm is x.mod and cn == x.name)
                                for cm, cn in self.mro(v.cls)):
                            return True
                    elif x[1] in py:
                        if not isinstance(v, Inst) and isinstance(
                                v, py[x[1]]):
                            return True
                    else:
                        raise AnalysisError(
                            f'folding: isinstance(.., {x[1]})')
                return False
            if isinstance(t, tuple) and t and t[0] == 'builtin':
                py = {'tuple': tuple, 'list': list, 'str': str, 'dict': dict,
                      'int': int}.get(t[1])
                if py is not None and not isinstance(v, (Sym, GuardedList)):
                    return isinstance(v, py)
                if py is not None and isinstance(v, GuardedList):
                    return py is list
            raise AnalysisError(f'folding: isinstance({v!r}, {t!r})')
        if name == 'print':
            return None
        if name == 'any':
            return any(self.truth(x) for x in self.iterate(args[0], e))
        if name == 'all':
            return all(self.truth(x) for x in self.iterate(args[0], e))
        if name == 'bool':
            return self.truth(args[0])
        if name == 'super':
            return ('super', )
        raise AnalysisError(f'folding: builtin {name} at {mod.loc(e)}')

    def method(self, o, name, args, kwargs, e, mod, depth):
        if isinstance(o, tuple) and len(o) == 2 and o[0] == 'repattern' and \
                name in ('match', 'fullmatch', 'search') and args and all(
                    isinstance(a, (str, int)) for a in args) and not kwargs:
            return getattr(o[1], name)(*args) is not None or None
        if isinstance(o, str):
            if name in ('replace', 'startswith', 'endswith', 'lower',
                        'upper', 'split', 'strip', 'join', 'format',
                        'lstrip', 'rstrip'):
                if any(isinstance(a, Sym) for a in args):
                    raise AnalysisError('folding: symbolic string argument')
                if name == 'join':
                    args = [list(self.iterate(args[0], e))]
                return getattr(o, name)(*args, **kwargs)
        if isinstance(o, dict):
            if name == 'items':
                return list(o.items())
            if name == 'values':
                return list(o.values())
            if name == 'keys':
                return list(o.keys())
            if name == 'get':
                return o.get(*args)
            if name == 'setdefault':
                return o.setdefault(*args)
            if name == 'update':
                o.update(*args, **kwargs)
                return None
            if name == 'pop':
                return o.pop(*args)
            if name == 'copy':
                return dict(o)
        if isinstance(o, list):
            if name == 'append':
                o.append(args[0])
                return None
            if name == 'extend':
                if isinstance(args[0], GuardedList):
                    raise AnalysisError(
                        'folding: plain list extended by guarded list')
                o.extend(self.iterate(args[0], e))
                return None
            if name == 'insert':
                o.insert(*args)
                return None
            if name == 'pop':
                return o.pop(*args)
            if name == 'index':
                return o.index(*args)
            if name == 'copy':
                return list(o)
            if name == 'remove':
                o.remove(args[0])
                return None
        if isinstance(o, set):
            if name == 'add':
                o.add(args[0])
                return None
        if isinstance(o, GuardedList):
            if name == 'append':
                o.items.append(Guarded(args[0], None))
                return None
            if name == 'extend':
                if isinstance(args[0], GuardedList):
                    o.items.extend(args[0].items)
                else:
                    o.items.extend(
                        Guarded(x, None) for x in self.iterate(args[0], e))
                return None
            if name == 'copy':
                return GuardedList(o.items)
        raise AnalysisError(
            f'folding: method {name} of {type(o).__name__} at {mod.loc(e)}')
