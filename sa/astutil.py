"""Small AST helpers shared by the rule modules."""
import ast
import copy

from .loader import AnalysisError, unparse


def opt_read(expr):
    """``options.args().NAME`` -> 'NAME' (also ``args().NAME``), else None."""
    if isinstance(expr, ast.Attribute) and isinstance(expr.value, ast.Call):
        c = expr.value
        if not c.args and not c.keywords:
            f = c.func
            if isinstance(f, ast.Attribute) and f.attr == 'args' and \
                    isinstance(f.value, ast.Name) and f.value.id == 'options':
                return expr.attr
    return None


def dotted(expr):
    """'a.b.c' for Name/Attribute chains, else None."""
    parts = []
    e = expr
    while isinstance(e, ast.Attribute):
        parts.append(e.attr)
        e = e.value
    if isinstance(e, ast.Name):
        parts.append(e.id)
        return '.'.join(reversed(parts))
    return None


def call_name(call):
    return dotted(call.func) if isinstance(call, ast.Call) else None


def calls_in(node, name=None, attr=None):
    """All Call nodes below ``node`` (optionally: dotted name == name, or
    attribute method name == attr)."""
    res = []
    for c in ast.walk(node):
        if not isinstance(c, ast.Call):
            continue
        if name is not None:
            if call_name(c) != name:
                continue
        if attr is not None:
            if not (isinstance(c.func, ast.Attribute) and c.func.attr == attr):
                continue
        res.append(c)
    return res


def walk_no_nested(node):
    """ast.walk that does not descend into nested function/class/lambda
    definitions (the node itself is yielded even if it is one)."""
    stack = [node]
    first = True
    while stack:
        n = stack.pop()
        yield n
        for c in ast.iter_child_nodes(n):
            if isinstance(c, (ast.FunctionDef, ast.AsyncFunctionDef,
                              ast.ClassDef, ast.Lambda)):
                continue
            stack.append(c)


def clone(node):
    """Structural copy of an AST (fields + positions only; the loader's
    ``_parent`` back links are NOT followed, unlike copy.deepcopy)."""
    if isinstance(node, list):
        return [clone(x) for x in node]
    if not isinstance(node, ast.AST):
        return node
    new = type(node)()
    for f in node._fields:
        if hasattr(node, f):
            setattr(new, f, clone(getattr(node, f)))
    for a in ('lineno', 'col_offset', 'end_lineno', 'end_col_offset'):
        if hasattr(node, a):
            setattr(new, a, getattr(node, a))
    return new


def subst(expr, env):
    """Copy of ``expr`` with Load-Names replaced by env[name] (ASTs)."""
    if not env:
        return expr

    class T(ast.NodeTransformer):

        def visit_Name(self, n):
            if isinstance(n.ctx, ast.Load) and n.id in env:
                return clone(env[n.id])
            return n

    return T().visit(clone(expr))


def rename(expr, mapping):
    """Copy of expr with Names renamed per mapping."""

    class T(ast.NodeTransformer):

        def visit_Name(self, n):
            if n.id in mapping:
                return ast.copy_location(ast.Name(id=mapping[n.id], ctx=n.ctx),
                                         n)
            return n

    return T().visit(clone(expr))


def params_of(func):
    a = func.args
    names = [x.arg for x in a.posonlyargs + a.args]
    return names


def bind_args(call, func, skip_self=False):
    """Map a call's arguments to the callee's parameter names.  Returns dict
    name -> expr (missing parameters absent)."""
    names = params_of(func)
    if skip_self and names and names[0] in ('self', 'cls'):
        names = names[1:]
    res = {}
    for i, a in enumerate(call.args):
        if isinstance(a, ast.Starred):
            raise AnalysisError(
                f'starred argument in call {unparse(call)} not modelled')
        if i < len(names):
            res[names[i]] = a
    for k in call.keywords:
        if k.arg is None:
            raise AnalysisError(f'**kwargs in call {unparse(call)}')
        res[k.arg] = k.value
    return res


def const_value(expr):
    """Python value of a literal expression, else raise ValueError."""
    try:
        return ast.literal_eval(expr)
    except Exception:
        raise ValueError(unparse(expr))


def is_const(expr, value=None):
    if not isinstance(expr, ast.Constant):
        return False
    return value is None or expr.value == value


def docstring_free(body):
    if body and isinstance(body[0], ast.Expr) and isinstance(
            body[0].value, ast.Constant) and isinstance(
                body[0].value.value, str):
        return body[1:]
    return body


def assigned_names_in(func):
    """Names bound anywhere in ``func`` (excluding nested defs)."""
    res = set()
    for n in walk_no_nested(func):
        if isinstance(n, ast.Name) and isinstance(n.ctx, (ast.Store,
                                                          ast.Del)):
            res.add(n.id)
    return res


def global_decls(func):
    res = set()
    for n in walk_no_nested(func):
        if isinstance(n, ast.Global):
            res.update(n.names)
    return res


def kw(call, name):
    for k in call.keywords:
        if k.arg == name:
            return k.value
    return None


def stmts_of(func):
    """All statements in func, not descending into nested defs."""
    return [n for n in walk_no_nested(func) if isinstance(n, ast.stmt)
            and n is not func]


_single_defs_cache = {}


def single_defs(func):
    """name -> value for locals assigned exactly once by a plain
    ``name = value`` (not parameters, not augmented, not loop targets)."""
    k = id(func)
    if k in _single_defs_cache and _single_defs_cache[k][0] is func:
        return _single_defs_cache[k][1]
    res = _single_defs(func)
    _single_defs_cache[k] = (func, res)
    return res


def _single_defs(func):
    counts = {}
    vals = {}
    params = set(params_of(func)) if hasattr(func, 'args') else set()
    for n in walk_no_nested(func):
        if isinstance(n, ast.Name) and isinstance(n.ctx, (ast.Store,
                                                          ast.Del)):
            counts[n.id] = counts.get(n.id, 0) + 1
        if isinstance(n, ast.Assign) and len(n.targets) == 1 and isinstance(
                n.targets[0], ast.Name):
            vals[n.targets[0].id] = n.value
    gl = set()
    for n in walk_no_nested(func):
        if isinstance(n, (ast.Global, ast.Nonlocal)):
            gl.update(n.names)
    return {
        k: v
        for k, v in vals.items()
        if counts.get(k) == 1 and k not in params and k not in gl
    }


def expand_locals(func, expr, depth=4):
    """Substitute single-definition locals into expr (bounded depth)."""
    defs = single_defs(func)
    cur = expr
    for _ in range(depth):
        used = {n.id for n in ast.walk(cur) if isinstance(n, ast.Name)
                and isinstance(n.ctx, ast.Load)} & set(defs)
        if not used:
            break
        cur = subst(cur, {k: defs[k] for k in used})
    return cur


def module_sentinels(mod):
    """Names bound once at module level to ``object()`` (identity markers)."""
    out = set()
    for gname, gvals in mod.globals.items():
        if len(gvals) == 1 and isinstance(gvals[0], ast.Call) and \
                isinstance(gvals[0].func, ast.Name) and \
                gvals[0].func.id == 'object' and not gvals[0].args:
            out.add(gname)
    return out


def module_const(mod, expr):
    """Python value of ``expr`` if it is a literal or a Name bound (once) at
    module level to a literal tuple/list/set/frozenset/dict/str; else raises
    ValueError."""
    if isinstance(expr, ast.Name) and expr.id in mod.globals and len(
            mod.globals[expr.id]) == 1:
        v = mod.globals[expr.id][0]
        if isinstance(v, ast.Call) and call_name(v) in (
                'frozenset', 'set', 'tuple', 'list') and len(v.args) == 1:
            return const_value(v.args[0])
        return const_value(v)
    return const_value(expr)


def expand_fact_texts(func, facts):
    """Adds, for every fact that mentions a single-definition local whose
    value is a side-effect free expression, the fact with that local
    substituted (so that hoisting ``x.is_leaf()`` into a local keeps the
    facts the rules look for)."""
    impure = {'pop', 'popleft', 'append', 'extend', 'insert', 'remove',
              'clear', 'update', 'add', 'discard', 'setdefault', 'send',
              'read', 'write', 'readline', 'communicate', 'wait', 'kill'}

    def pure(v):
        for c in ast.walk(v):
            if isinstance(c, (ast.Yield, ast.YieldFrom, ast.Await,
                              ast.NamedExpr)):
                return False
            if isinstance(c, ast.Call):
                if isinstance(c.func, ast.Attribute) and \
                        c.func.attr in impure:
                    return False
                if isinstance(c.func, ast.Name) and c.func.id in (
                        'next', 'input', 'open', 'iter'):
                    return False
        return True

    defs = {k: v for k, v in single_defs(func).items() if pure(v)}
    if not defs:
        return set(facts)
    out = set(facts)
    for (t, pol) in facts:
        try:
            e = ast.parse(t, mode='eval').body
        except SyntaxError:
            continue
        names = {n.id for n in ast.walk(e) if isinstance(n, ast.Name)}
        if names & set(defs):
            cur = e
            for _ in range(3):
                used = {n.id for n in ast.walk(cur)
                        if isinstance(n, ast.Name)} & set(defs)
                if not used:
                    break
                cur = subst(cur, {k: defs[k] for k in used})
            out.add((unparse(cur), pol))
            # a hoisted conjunction / negation yields its atoms
            from .cfg import decompose, fact_key
            try:
                for (x, p_) in decompose(cur, pol):
                    out.add(fact_key(x, p_))
            except Exception:  # noqa
                pass
    return out


def nearest_def(func, name, site):
    """Value of the closest plain assignment ``name = value`` that lexically
    precedes ``site`` in its own or an enclosing block of ``func`` (flow
    approximation for straight-line code; None if there is none)."""
    cur = site
    while cur is not None and cur is not func:
        par = getattr(cur, '_parent', None)
        for fld in ('body', 'orelse', 'finalbody'):
            blk = getattr(par, fld, None)
            if isinstance(blk, list) and cur in blk:
                for st in reversed(blk[:blk.index(cur)]):
                    if isinstance(st, ast.Assign) and any(
                            isinstance(t, ast.Name) and t.id == name
                            for t in st.targets):
                        return st.value
        cur = par
    return None


def resolve_near(func, e, site, depth=0):
    """Follow names to their nearest preceding definition (bounded)."""
    if isinstance(e, ast.Name) and depth < 4:
        d = nearest_def(func, e.id, site)
        if d is not None:
            return resolve_near(func, d, site, depth + 1)
    return e
