"""Positive fixture for the memoisation rule (sa/memo.py)."""
import functools
import os
import threading
import time

from . import options


@functools.cache
def bad_pid_name():
    return f'tmp-{os.getpid()}-{threading.get_ident()}'


@functools.lru_cache(maxsize=None)
def bad_option(cc=False):
    return options.args().timeout_cc if cc else options.args().timeout


def _stamp():
    return time.time()


@functools.lru_cache(maxsize=16)
def bad_clock_through_helper(x):
    return (x, _stamp())


class Thing:

    def __eq__(self, other):
        return self.data == other.data

    def __hash__(self):
        return hash(self.data)

    @functools.lru_cache(maxsize=4096)
    def bad_structural(self):
        return (self.id, self.data)

    @functools.lru_cache(maxsize=4096)
    def good_structural(self):
        return len(self.data)


@functools.cache
def good_pure(width):
    return 2**width - 1


@functools.lru_cache(maxsize=None)
def good_unwritten_option():
    return options.args().cmd
