"""Positive fixture for C04.R16 (a builtin function used as data)."""


def bad_index(sorts, cmd):
    for idx in range(len(sorts)):
        if idx >= len(cmd):
            print(f'ignore {sorts[id]}')   # leftover of a rename: builtin id
            continue


def bad_arith(items):
    total = 0
    for x in items:
        total = sum + x                    # builtin sum, not a local
    return total


def good_shadow(items):
    for id, x in enumerate(items):         # the local shadows the builtin
        print(items[id])


def good_callable(items):
    order = reversed if items else iter    # builtins as callables: fine
    return sorted(order(items), key=len)
