"""Positive fixture for the one-shot iterator rule (sa/genreuse.py)."""
import logging


def numbers(n):
    for i in range(n):
        yield i


def bad_debug_then_use(items, out, verbose):
    lines = (str(x) for x in items)
    if verbose:
        logging.debug('longest: %d', max(map(len, lines), default=0))
    for line in lines:
        out.write(line)


def bad_two_loops(n):
    it = numbers(n)
    total = sum(it)
    return total, list(it)


def good_list(items, out, verbose):
    lines = [str(x) for x in items]
    if verbose:
        logging.debug('longest: %d', max(map(len, lines), default=0))
    for line in lines:
        out.write(line)


def good_either_or(items, out, verbose):
    lines = (str(x) for x in items)
    if verbose:
        return ', '.join(lines)
    return list(lines)


def good_rebound(items):
    it = iter(items)
    first = list(it)
    it = iter(items)
    return first, list(it)
