"""Positive / negative examples for sa/idkeys.py (never imported, never run)."""
import collections

_CACHE = {}
_SEEN = set()
Rec = collections.namedtuple('Rec', ['token', 'value'])


def bad_global_cache(expr):
    line = _CACHE.get(id(expr))
    if line is None:
        line = str(expr)
        _CACHE[id(expr)] = line
    return line


def bad_global_lookup(expr):
    if id(expr) in _SEEN:
        return True
    return False


class Holder:

    def bad_attr_token(self):
        self.token = id(self)


def bad_record(x):
    return Rec(id(x), x)


def good_local_seen(nodes):
    seen = set()
    out = []
    for n in nodes:
        if id(n) in seen:
            continue
        seen.add(id(n))
        out.append(n)
    return out


def good_local_dict(nodes):
    where = {}
    for i, n in enumerate(nodes):
        where[id(n)] = i
    return [where[id(n)] for n in nodes]
