"""Positive fixture for C06.R6: dispositions of SIGINT the rule must flag
(two) and the save/restore idiom it must accept (one)."""
import multiprocessing
import signal


def bad_default():
    signal.signal(signal.SIGINT, signal.SIG_IGN)
    pool = multiprocessing.Pool(2)
    signal.signal(signal.SIGINT, signal.SIG_DFL)
    return pool


def bad_ignore_forever():
    signal.signal(signal.SIGINT, signal.SIG_IGN)
    return multiprocessing.Pool(2)


def good_restore():
    previous = signal.signal(signal.SIGINT, signal.SIG_IGN)
    pool = multiprocessing.Pool(2)
    signal.signal(signal.SIGINT, previous)
    return pool
