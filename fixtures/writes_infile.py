# Positive fixture for the zero-count rule "nothing writes the input file"
# (C06.R2 / C01.R3).  Never imported or executed: it is parsed by the
# file-effect inventory on every run, which must report both planted writes.
import shutil

from . import options


def clobber():
    with open(options.args().infile, 'w') as f:
        f.write('')


def overwrite(src):
    shutil.copy(src, options.args().infile)
